#!/bin/bash
# Offline setup: make sure hypothesis (and, if possible, jsonschema) are importable by the
# interpreter the checks use.  Installs from the local wheelhouse into /verif/.deps only when missing.
HERE="$(cd "$(dirname "${BASH_SOURCE[0]}")" && pwd)"
cd "$HERE" || exit 2
PY="${VERIF_PYTHON:-/venv/bin/python}"
WH=/opt/veriftools/wheels
mkdir -p .deps evidence replays/found
need=""
for m in hypothesis jsonschema; do
  PYTHONPATH="$HERE/.deps" "$PY" -c "import $m" 2>/dev/null || need="$need $m"
done
if [ -n "$need" ]; then
  "$PY" -m pip install --quiet --no-index --find-links "$WH" --target "$HERE/.deps" $need || \
    echo "setup: could not install$need (jsonschema is optional; hypothesis is required)"
fi
PYTHONPATH="$HERE/.deps" "$PY" -c "import hypothesis, simpy; print('setup ok: hypothesis', hypothesis.__version__, 'simpy', simpy.__version__)" || exit 1
chmod +x "$HERE/check"
exit 0
