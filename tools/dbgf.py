"""debug helper for Engine F props: bucket violations/aborts with smallest case"""
import sys, json, os, collections, time
sys.path.insert(0, os.path.dirname(os.path.dirname(os.path.abspath(__file__))))
from vlib import common
sys.stdout = common._NULL
import hypothesis
from hypothesis import given, settings, HealthCheck, Phase
prop = sys.argv[1]; n = int(sys.argv[2]); seed = int(sys.argv[3]) if len(sys.argv) > 3 else 1
mod = common.prop_module(prop)
buckets = collections.OrderedDict()
cnt = [0, 0]
t0 = time.time()
@hypothesis.seed(seed)
@settings(max_examples=n, database=None, deadline=None, phases=[Phase.generate], suppress_health_check=list(HealthCheck))
@given(mod.strategy("quick"))
def f(case):
    r = mod.run_case(case)
    cnt[0] += 1; cnt[1] += 1 if r.nontrivial else 0
    keys = [("V",)+s for s, m in r.violations]
    if r.aborted: keys.append(("A", r.aborted))
    for k in keys:
        b = buckets.setdefault(k, [0, None, None])
        b[0] += 1
        if b[1] is None or len(common.canon(case)) < len(common.canon(b[1])):
            b[1] = case; b[2] = [m for s, m in r.violations if ("V",)+s == k]
f()
common.out("cases", cnt[0], "nontrivial", cnt[1], "time %.1fs" % (time.time()-t0))
for k, (c, case, msgs) in sorted(buckets.items(), key=lambda kv: -kv[1][0]):
    common.out(c, k, msgs[:1])
    if "-v" in sys.argv: common.out("   ", common.canon(case))
