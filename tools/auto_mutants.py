#!/venv/bin/python
"""Systematic mutation sampling (sensitivity measurement, not a registered check).

Enumerates small syntactic mutations of /repo/src/factorysimpy (comparison flips, and/or swaps, +-1 on integer
literals, deletion of bare call statements such as a re-trigger or a remove), samples N of them with a fixed seed,
and for each one that still passes the repository's own test-suite runs the quick tier of the checks that own the
mutated file until one reports a violation.

  tools/auto_mutants.py --n 120 --seed 1 --jobs 2 [--out mutants/auto_results.jsonl]

Every scratch copy lives under a mkdtemp directory and is removed when its mutant is done."""
import argparse, ast, json, os, random, re, shutil, subprocess, sys, tempfile, time
from concurrent.futures import ThreadPoolExecutor

REPO = "/repo"
SRC = os.path.join(REPO, "src")
HERE = os.path.dirname(os.path.dirname(os.path.abspath(__file__)))

DEAD = {"_do_get1", "reserve_get_cancel1", "check_thread_state_and_update_combiner_state1",
        "check_thread_state_and_update_combiner_state_flexsim", "check_thread_state_and_update_splitter_state1",
        "check_thread_state_and_update_splitter_state_flexsim", "_stats_collector1", "aggregate_joint_stats",
        "aggregate_joint_stats1", "aggregate_machine_stats", "aggregate_split_stats", "aggregate_split_stats1",
        "compute_performance_metrics", "__repr__", "can_get"}

OWNERS = [
    (r"base/(reservable_priority_req_store|reservable_req_store|priority_req_store|reservable_priority_req_filter_store)\.py",
     ["C04", "C01", "C02", "C05", "C06", "C07", "C18", "C20"]),
    (r"base/buffer_store\.py", ["C04", "C02", "C06", "C01", "C11", "C05", "C07", "C18", "C20", "C03", "C10"]),
    (r"base/fleet_store\.py", ["C14", "C04", "C02", "C01", "C06", "C05", "C07", "C11", "C18", "C20"]),
    (r"base/(belt_store|slotted_belt_store)\.py", ["C13", "C12", "C01", "C02", "C04", "C06", "C07", "C05", "C18", "C20"]),
    (r"edges/(buffer|fleet)\.py", ["C11", "C18", "C04", "C01", "C09", "C20", "C03", "C10"]),
    (r"edges/", ["C13", "C12", "C18", "C20", "C01", "C02", "C03"]),
    (r"nodes/", ["C08", "C09", "C10", "C15", "C16", "C17", "C18", "C03", "C19", "C20"]),
    (r"helper/", ["C16", "C18", "C03", "C20"]),
    (r"utils/utils\.py", ["C15", "C19", "C20"]),
]
SKIP_FILES = ("utils/stats_summary.py", "constructs/", "__init__.py")

CMP = {ast.Lt: "<=", ast.LtE: "<", ast.Gt: ">=", ast.GtE: ">", ast.Eq: "!=", ast.NotEq: "=="}
CMP_SRC = {ast.Lt: "<", ast.LtE: "<=", ast.Gt: ">", ast.GtE: ">=", ast.Eq: "==", ast.NotEq: "!="}


def sites_of(path, rel):
    text = open(path).read()
    try:
        tree = ast.parse(text)
    except SyntaxError:
        return []
    lines = text.split("\n")
    out = []
    func_of = {}
    for fn in ast.walk(tree):
        if isinstance(fn, (ast.FunctionDef, ast.AsyncFunctionDef)):
            for n in ast.walk(fn):
                if hasattr(n, "lineno"):
                    func_of.setdefault(id(n), fn.name)

    def in_print(n, parents):
        return any(isinstance(p, ast.Call) and getattr(p.func, "id", None) == "print" for p in parents)
    parents = {}
    for p in ast.walk(tree):
        for c in ast.iter_child_nodes(p):
            parents[id(c)] = p

    def chain(n):
        res = []
        while id(n) in parents:
            n = parents[id(n)]
            res.append(n)
        return res
    for n in ast.walk(tree):
        fname = func_of.get(id(n))
        if fname in DEAD or fname is None:
            continue
        ch = chain(n)
        if any(isinstance(p, ast.Call) and getattr(p.func, "id", None) == "print" for p in ch):
            continue
        if any(isinstance(p, (ast.Assert, ast.Raise, ast.JoinedStr)) for p in ch):
            continue
        if isinstance(n, ast.Compare) and len(n.ops) == 1 and type(n.ops[0]) in CMP and n.lineno == n.end_lineno:
            left_end = n.left.end_col_offset
            right_start = n.comparators[0].col_offset
            seg = lines[n.lineno - 1][left_end:right_start]
            op = CMP_SRC[type(n.ops[0])]
            if seg.count(op) == 1 and n.left.end_lineno == n.lineno:
                i = left_end + seg.index(op)
                out.append({"file": rel, "line": n.lineno, "func": fname, "kind": "cmp",
                            "span": [i, i + len(op)], "new": CMP[type(n.ops[0])]})
        elif isinstance(n, ast.BoolOp) and n.lineno == n.end_lineno and len(n.values) == 2:
            a, b = n.values
            seg = lines[n.lineno - 1][a.end_col_offset:b.col_offset]
            op = "and" if isinstance(n.op, ast.And) else "or"
            m = re.search(r"\b%s\b" % op, seg)
            if m and a.end_lineno == n.lineno:
                i = a.end_col_offset + m.start()
                out.append({"file": rel, "line": n.lineno, "func": fname, "kind": "bool",
                            "span": [i, i + len(op)], "new": "or" if op == "and" else "and"})
        elif isinstance(n, ast.Constant) and type(n.value) is int and n.value in (0, 1, 2) and n.lineno == n.end_lineno:
            par = parents.get(id(n))
            if isinstance(par, (ast.BinOp, ast.Compare, ast.Subscript, ast.Slice, ast.Call)):
                out.append({"file": rel, "line": n.lineno, "func": fname, "kind": "int",
                            "span": [n.col_offset, n.end_col_offset], "new": str(n.value + 1)})
        elif isinstance(n, ast.Expr) and isinstance(n.value, ast.Call) and n.lineno == n.end_lineno:
            f = n.value.func
            name = getattr(f, "attr", getattr(f, "id", ""))
            if name in ("print",) or name.startswith("_update_avg") or name == "update_node_event" and False:
                continue
            out.append({"file": rel, "line": n.lineno, "func": fname, "kind": "del:" + name,
                        "span": [n.col_offset, n.end_col_offset], "new": "pass"})
    for s in out:
        s["old"] = lines[s["line"] - 1][s["span"][0]:s["span"][1]]
        s["text"] = lines[s["line"] - 1].strip()[:160]
    return out


def all_sites():
    res = []
    root = os.path.join(SRC, "factorysimpy")
    for d, _, fs in os.walk(root):
        for f in sorted(fs):
            if not f.endswith(".py"):
                continue
            p = os.path.join(d, f)
            rel = os.path.relpath(p, SRC)
            if any(k in rel for k in SKIP_FILES):
                continue
            res.extend(sites_of(p, rel))
    return res


def owners(rel):
    for pat, cs in OWNERS:
        if re.search(pat, rel):
            return cs
    return ["C20"]


def run_one(idx, site, timeout_check):
    t0 = time.time()
    tmp = tempfile.mkdtemp(prefix="vam_")
    rec = dict(site, idx=idx)
    try:
        shutil.copytree(SRC, os.path.join(tmp, "src"), ignore=shutil.ignore_patterns("*.egg-info", "__pycache__"))
        shutil.copytree(os.path.join(REPO, "tests"), os.path.join(tmp, "tests"), ignore=shutil.ignore_patterns("__pycache__"))
        p = os.path.join(tmp, "src", site["file"])
        lines = open(p).read().split("\n")
        ln = lines[site["line"] - 1]
        a, b = site["span"]
        assert ln[a:b] == site["old"], (ln[a:b], site["old"])
        lines[site["line"] - 1] = ln[:a] + site["new"] + ln[b:]
        open(p, "w").write("\n".join(lines))
        env = dict(os.environ, PYTHONPATH=os.path.join(tmp, "src"), PYTHONDONTWRITEBYTECODE="1")
        r = subprocess.run(["/venv/bin/python", "-m", "pytest", "-q", "-p", "no:cacheprovider", "--timeout=300", "tests"],
                           cwd=tmp, env=env, capture_output=True, text=True, timeout=900)
        tail = r.stdout.strip().split("\n")[-1] if r.stdout.strip() else ""
        if "70 passed" not in tail:
            rec.update(result="killed_by_tests", detail=tail[:120])
            return rec
        env2 = dict(os.environ, VERIF_REPO_SRC=os.path.join(tmp, "src"), VERIF_EVIDENCE_DIR=os.path.join(tmp, "ev"),
                    VERIF_FOUND_DIR=os.path.join(tmp, "found"), VERIF_SEED="1")
        tried = []
        for c in owners(site["file"]):
            try:
                r = subprocess.run([os.path.join(HERE, "check"), c, "--no-shrink"], env=env2, capture_output=True, text=True,
                                   timeout=timeout_check)
            except subprocess.TimeoutExpired:
                tried.append(c + ":timeout")
                rec.update(result="killed", by=c, detail="timeout (runaway)", tried=tried)
                return rec
            tried.append(c)
            vio = [l for l in r.stdout.split("\n") if l.startswith("VIOLATION")]
            if vio:
                sig = [l for l in r.stdout.split("\n") if l.strip().startswith("signature=")]
                rec.update(result="killed", by=c, detail=(sig[0].strip()[:200] if sig else vio[0]), tried=tried)
                return rec
            if r.returncode not in (0, 1):
                tried[-1] = c + ":exit%d" % r.returncode     # no verdict from this check (e.g. every case aborted): go on
                rec["inconclusive"] = (r.stderr or r.stdout)[-200:]
        rec.update(result="survived", tried=tried)
        return rec
    except Exception as e:     # noqa
        rec.update(result="error", detail=repr(e)[:300])
        return rec
    finally:
        rec["wall"] = round(time.time() - t0, 1)
        shutil.rmtree(tmp, ignore_errors=True)


def main():
    ap = argparse.ArgumentParser()
    ap.add_argument("--n", type=int, default=100)
    ap.add_argument("--seed", type=int, default=1)
    ap.add_argument("--jobs", type=int, default=2)
    ap.add_argument("--out", default=os.path.join(HERE, "mutants", "auto_results.jsonl"))
    ap.add_argument("--list", action="store_true")
    ap.add_argument("--timeout", type=int, default=900)
    a = ap.parse_args()
    sites = all_sites()
    if a.list:
        from collections import Counter
        print(len(sites), Counter(s["file"] for s in sites).most_common())
        print(Counter(s["kind"].split(":")[0] for s in sites))
        return
    rnd = random.Random(a.seed)
    rnd.shuffle(sites)
    done = set()
    if os.path.exists(a.out):
        for l in open(a.out):
            try:
                d = json.loads(l)
                done.add((d["file"], d["line"], d["kind"], tuple(d["span"])))
            except Exception:
                pass
    todo = [s for s in sites if (s["file"], s["line"], s["kind"], tuple(s["span"])) not in done][:a.n]
    with ThreadPoolExecutor(a.jobs) as ex, open(a.out, "a") as out:
        for rec in ex.map(lambda t: run_one(t[0], t[1], a.timeout), enumerate(todo)):
            out.write(json.dumps(rec) + "\n")
            out.flush()
            print("%-16s %-45s %4d %-22s %s %s" % (rec["result"], rec["file"], rec["line"], rec["kind"], rec.get("by", ""),
                                                   rec.get("detail", "")[:90]), flush=True)


if __name__ == "__main__":
    main()
