#!/usr/bin/env python3
"""Sensitivity self-test: apply each mutant patch (mutants/*.patch) or seeded change (seeded/*/patch.diff) to a
scratch copy of /repo (outside /repo and /verif), run the owning checks against it with VERIF_REPO_SRC, and
expect exit status 1 (VIOLATION).  The scratch copy is removed afterwards.

usage: selftest.py [--only NAME_SUBSTR] [--props C01,C02] [--examples N] [--seeded] [--jobs J]"""
import argparse
import json
import os
import shutil
import subprocess
import sys
import tempfile
from concurrent.futures import ThreadPoolExecutor

HERE = os.path.dirname(os.path.dirname(os.path.abspath(__file__)))
REPO = "/repo"


def run_one(job):
    name, patch, props, examples = job
    tmp = tempfile.mkdtemp(prefix="vmut_")
    try:
        shutil.copytree(os.path.join(REPO, "src"), os.path.join(tmp, "src"),
                        ignore=shutil.ignore_patterns("*.egg-info", "__pycache__"))
        r = subprocess.run(["patch", "-p1", "-s", "-i", patch], cwd=tmp, capture_output=True, text=True)
        if r.returncode != 0:
            return (name, "PATCH-FAILED", r.stdout + r.stderr)
        out = []
        for p in props:
            env = dict(os.environ, VERIF_REPO_SRC=os.path.join(tmp, "src"), VERIF_SHARDS=os.environ.get("VERIF_MUT_SHARDS", "4"),
                       VERIF_EVIDENCE_DIR=os.path.join(tmp, "evidence"), VERIF_FOUND_DIR=os.path.join(tmp, "found"))
            cmd = [os.path.join(HERE, "check"), p, "--no-shrink"]
            if examples:
                cmd += ["--examples", str(examples)]
            try:
                rr = subprocess.run(cmd, cwd=HERE, env=env, capture_output=True, text=True, timeout=900)
            except subprocess.TimeoutExpired:
                out.append((p, 99, ["TIMEOUT"]))
                continue
            sigs = [l.strip() for l in rr.stdout.splitlines() if l.strip().startswith("signature=")]
            if rr.returncode == 2:
                sigs = [rr.stdout.strip()[-300:]]
            out.append((p, rr.returncode, sigs[:2]))
        return (name, "RAN", out)
    finally:
        shutil.rmtree(tmp, ignore_errors=True)


def main():
    ap = argparse.ArgumentParser()
    ap.add_argument("--only")
    ap.add_argument("--props")
    ap.add_argument("--examples", type=int)
    ap.add_argument("--seeded", action="store_true")
    ap.add_argument("--jobs", type=int, default=4)
    a = ap.parse_args()
    jobs = []
    if a.seeded:
        sd = os.path.join(HERE, "seeded")
        for d in sorted(os.listdir(sd)):
            meta = os.path.join(sd, d, "meta.json")
            if os.path.exists(meta):
                m = json.load(open(meta))
                if m.get("status") in ("neutralised", "masked_by_known_finding"):
                    print("%-45s skipped (%s, see meta.json)" % (d, "neutralised by a later repair" if m["status"] == "neutralised"
                                                                else "manifests only under a known-finding signature"))
                    continue
                jobs.append((d, os.path.join(sd, d, "patch.diff"), m.get("caught_by") or [m["property"]], a.examples))
    else:
        idx = json.load(open(os.path.join(HERE, "mutants", "index.json")))
        for m in idx:
            jobs.append((m["name"], os.path.join(HERE, "mutants", m["name"] + ".patch"), m["properties"], a.examples))
    if a.only:
        jobs = [j for j in jobs if a.only in j[0]]
    if a.props:
        want = set(a.props.split(","))
        jobs = [(n, p, [x for x in pr if x in want], e) for (n, p, pr, e) in jobs]
        jobs = [j for j in jobs if j[2]]
    missed = 0
    with ThreadPoolExecutor(a.jobs) as ex:
        for name, status, detail in ex.map(run_one, jobs):
            if status != "RAN":
                print("%-45s %s %s" % (name, status, detail.strip()[:200]))
                missed += 1
                continue
            for p, rc, sigs in detail:
                verdict = "caught" if rc == 1 else ("MISSED" if rc == 0 else "HARNESS-ERROR")
                if rc != 1:
                    missed += 1
                print("%-45s %s %-14s %s" % (name, p, verdict, sigs[0][:150] if sigs else ""))
            sys.stdout.flush()
    print("missed/errors: %d of %d" % (missed, sum(len(j[2]) for j in jobs)))
    return 1 if missed else 0


if __name__ == "__main__":
    sys.exit(main())
