#!/bin/bash
# usage: tools/adopt_seeded.sh C04 [suffix [worktree-dir]]
# Validates a sub-agent's seeded change (found in /tmp/wt_<ID>) in a fresh scratch worktree of /repo and, if it
# holds up (applies, suite passes, demo PASS without / FAIL with), stores it under /verif/seeded/<ID><suffix>/.
ID=$1; SUF=$2
W=${3:-/tmp/wt_$ID}
V=/tmp/val_$ID$SUF
D=/verif/seeded/$ID$SUF
[ -f $W/seeded_patch.diff ] || { echo "no patch in $W"; exit 2; }
git -C /repo worktree add -q --detach $V HEAD || exit 2
trap "git -C /repo worktree remove --force $V >/dev/null 2>&1" EXIT
cd $V
echo "== demo on clean tree"
PYTHONPATH=$V/src timeout 600 /venv/bin/python $W/demo.py > /tmp/demo_clean_$ID.log 2>&1; rc_clean=$?
tail -2 /tmp/demo_clean_$ID.log
git apply $W/seeded_patch.diff || { echo "PATCH DOES NOT APPLY"; exit 3; }
echo "== test-suite with the change"
PYTHONPATH=$V/src timeout 900 /venv/bin/python -m pytest -q -p no:cacheprovider --timeout=900 tests 2>&1 | tail -1 > /tmp/tests_$ID.log; cat /tmp/tests_$ID.log
echo "== demo with the change"
PYTHONPATH=$V/src timeout 600 /venv/bin/python $W/demo.py > /tmp/demo_mut_$ID.log 2>&1; rc_mut=$?
tail -2 /tmp/demo_mut_$ID.log
echo "rc_clean=$rc_clean rc_mut=$rc_mut"
if [ $rc_clean -eq 0 ] && [ $rc_mut -eq 1 ] && grep -q "^70 passed" /tmp/tests_$ID.log; then
  mkdir -p $D
  cp $W/seeded_patch.diff $D/patch.diff; cp $W/demo.py $D/demo.py; cp $W/notes.md $D/notes.md 2>/dev/null
  echo "ADOPTED -> $D"
else
  echo "REJECTED"
  exit 4
fi
