#!/bin/bash
# usage: tools/with_patch.sh <patch> <command...>   runs the command with VERIF_REPO_SRC pointing at a scratch copy of
# /repo/src with the patch applied (scratch copy lives under mktemp -d and is removed afterwards)
P=$(readlink -f "$1"); shift
T=$(mktemp -d /tmp/vpatch_XXXXXX)
trap "rm -rf $T" EXIT
cp -r /repo/src $T/src
rm -rf $T/src/*.egg-info
(cd $T && patch -p1 -s -i "$P") || exit 3
VERIF_REPO_SRC=$T/src VERIF_EVIDENCE_DIR=$T/evidence VERIF_FOUND_DIR=$T/found "$@"
