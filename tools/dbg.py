"""debug helper: run N generated cases of a property in-process and bucket aborted/violations with a sample case"""
import sys, json, os, collections
sys.path.insert(0, os.path.dirname(os.path.dirname(os.path.abspath(__file__))))
from vlib import common
sys.stdout = common._NULL
import hypothesis
from hypothesis import given, settings, HealthCheck, Phase
prop = sys.argv[1]; n = int(sys.argv[2]); seed = int(sys.argv[3]) if len(sys.argv) > 3 else 1
mod = common.prop_module(prop)
buckets = collections.OrderedDict()
@hypothesis.seed(seed)
@settings(max_examples=n, database=None, deadline=None, phases=[Phase.generate], suppress_health_check=list(HealthCheck))
@given(mod.strategy("quick"))
def f(case):
    r = mod.run_case(case)
    keys = [("V",)+s for s, m in r.violations]
    if r.aborted: keys.append(("A", r.aborted, case["subject"]["cls"] if "subject" in case else ""))
    for k in keys:
        b = buckets.setdefault(k, [0, None, None])
        b[0] += 1
        if b[1] is None or len(common.canon(case)) < len(common.canon(b[1])):
            b[1] = case; b[2] = [m for s, m in r.violations]
f()
for k, (c, case, msgs) in buckets.items():
    common.out(c, k, msgs[:1]); common.out("   ", common.canon(case))
