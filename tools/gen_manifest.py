#!/usr/bin/env python3
"""Regenerates /verif/MANIFEST.json from the table below (single source of truth)."""
import json
import os

HERE = os.path.dirname(os.path.dirname(os.path.abspath(__file__)))

CHECKS = {
    # id: (engine, technique, level text, level note, design ref)
    "C01": ("S", "property-based testing: generated store op-histories, invariant oracle after every call and kernel event",
            "Exploration: tens of thousands (quick) to ~10^6 (thorough) generated call histories per run over all seven "
            "reservable stores, Buffer/Fleet edges and both conveyors; the capacity invariant and put-success are checked "
            "after every API call and every kernel event.  Held on everything explored; no proof of absence.",
            "Trusted: SimPy kernel; harness acts as a process by setting env._active_proc; held items are read from the public "
            "lists items/ready_items; granted-unused tokens come from the harness's own ledger.", "DESIGN.md §4 C01"),
    "C02": ("S", "property-based testing: generated store op-histories, conservation-by-identity oracle after every step",
            "Exploration: generated histories with several outstanding retrievals, cancels of granted tokens, arrivals in between, "
            "gets in arbitrary order on all store classes (FIFO and LIFO); multiset(put) = multiset(got) + inside by object identity "
            "after every call and kernel event, every granted get returns a distinct put object.", "Trusted: SimPy kernel; harness acts as a process by setting env._active_proc; public lists items/ready_items; the harness's own token ledger.", "DESIGN.md §4 C02"),
    "C04": ("S", "property-based testing: generated store op-histories, end-of-instant no-lost-wake-up invariant",
            "Exploration: generated histories with many waiting requests on both sides; invariant 'no pending request while it is "
            "servable' after every call (time-less stores) and at the end of every simulated instant (all stores).",
            "Trusted: SimPy kernel; harness acts as a process by setting env._active_proc; public lists items/ready_items; the harness's own token ledger. 'At that instant' is judged when all kernel events of the timestamp are processed.", "DESIGN.md §4 C04"),
    "C05": ("S", "property-based testing: generated request histories, model-free service-order predicate",
            "Exploration: generated histories with priorities -2..2 and many ties on the priority stores (FCFS elsewhere) plus "
            "put/get/cancel request histories on PriorityReqStore; no request is granted while an earlier-ranked one of the same kind is pending.",
            "Trusted: SimPy kernel; harness acts as a process by setting env._active_proc; public lists items/ready_items; the harness's own token ledger. Grant = event.triggered polled after every call and kernel event.", "DESIGN.md §4 C05"),
    "C06": ("S", "property-based testing: generated op-histories against a nondeterministic (possible-worlds) reference model of token-item binding",
            "Exploration: histories rich in cancels of granted retrievals, both buffer modes, filter predicates; every get() result must "
            "agree with at least one binding assignment the statement allows (FIFO / LIFO / filter / release rule).",
            "Trusted: SimPy kernel; harness acts as a process by setting env._active_proc; public lists items/ready_items; the harness's own token ledger. Items becoming available in one kernel event are mutually unordered (C14 owns batch order); two released items are mutually unordered.", "DESIGN.md §4 C06"),
    "C07": ("S", "property-based testing: generated op-histories with injected misuse calls; state-equality and metamorphic (delete-the-rejected-call) oracle",
            "Exploration: nine kinds of ill-formed put/get/cancel calls injected into valid histories on all store classes; each must raise "
            "exactly RuntimeError, leave items/ready_items/occupancy/live tokens unchanged, and the history without the rejected calls "
            "must produce the identical observable trace.", "Trusted: SimPy kernel; harness acts as a process by setting env._active_proc; public lists items/ready_items; the harness's own token ledger. Buffer edges use constant delays here.", "DESIGN.md §4 C07"),
    "C11": ("S", "property-based testing: generated op-histories with probe operations; exact-time and differential (query vs probe reservation) oracle",
            "Exploration: Buffer and Fleet edges with constant/callable/generator delays incl. 0; delay source consulted once per put, item "
            "retrievable exactly from t+d, can_put()/can_get() equal the outcome of a probe reservation, occupancy equals puts minus gets.",
            "Trusted: SimPy kernel; harness acts as a process by setting env._active_proc; public lists items/ready_items; the harness's own token ledger. Due times use the kernel's own float arithmetic (now + delay).", "DESIGN.md §4 C11"),
    "C14": ("S", "property-based testing: generated load/consume histories against a reference model of fleet departures",
            "Exploration: FleetStore / Fleet with capacity 1-5, five delays, five transit delays (0 included); every item must become available "
            "exactly at (first departure >= its load) + 2*transit, in loading order; departures = capacity instants and timer expiries.",
            "Trusted: SimPy kernel; harness acts as a process by setting env._active_proc; public lists items/ready_items; the harness's own token ledger. The dispatcher timer phase (restart at every wake-up) is taken from the implementation; delay 0 excluded (C20).", "DESIGN.md §4 C14"),
    "C03": ("F", "property-based testing: generated factories, outside ledger, exactly-one-place invariant after every kernel event",
            "Exploration: thousands (quick) to ~10^5 (thorough) generated factories with fan-in/fan-out, pack lines, all edge kinds and "
            "policies; after every kernel event every item is in exactly one place by ledger vs public edge content, source/node "
            "equations hold, finite inputs drain completely.", "Trusted: SimPy kernel; the outside ledger (instance-level wrappers around reserve_put/reserve_get/put/get/cancel of every store); public state items/ready_items/stats. Discards are visible only through the nodes' counters.", "DESIGN.md §4 C03"),
    "C20": ("F", "property-based testing / fuzzing of generated factory configurations (valid and invalid) with exception bucketing",
            "Exploration: generated valid factories over the widest grammar run under an event-bounded step loop (any escaping exception "
            "or >20000 events per instant is a violation, bucketed by exception type and innermost library frame) plus generated invalid "
            "configurations that must be rejected; plus well-formed Engine-S operation histories on every store / edge class (no call made "
            "with a live reservation of the caller and no library process may raise).", "Trusted: SimPy kernel; the outside ledger (instance-level wrappers around reserve_put/reserve_get/put/get/cancel of every store); public state items/ready_items/stats. Valid domain = constructor signatures and parameter docs; known crash signatures are listed in known_findings.json.", "DESIGN.md §4 C20"),
    "C08": ("F", "property-based testing: generated factories, ledger-derived per-item timing oracle (pull, delay draw, ready, push)",
            "Exploration: generated factories with work_capacity 1-3, all delay-source kinds, congestion; capacity invariant after every "
            "kernel event, one delay draw per pulled item in the kernel step of the pull, no push before t_pull+d (exact), and at every "
            "end of instant every finished item of a blocking node has a worker waiting on a live space request.",
            "Trusted: SimPy kernel; the outside ledger (instance-level wrappers around reserve_put/reserve_get/put/get/cancel of every store, can_put of every edge); harness-supplied delay/selection sources that log every consultation; public stats. Conveyor out-edges get the 'not before' half only.", "DESIGN.md §4 C08"),
    "C09": ("F", "property-based testing: generated factories with congestion, per-instant accounting oracle plus recorded can_put probes",
            "Exploration: generated factories, every node type x blocking flag x policy with full / partly full out-edges; blocking nodes "
            "never count a discard; non-blocking machines and sources push or discard exactly at the ready instant, the discard counter "
            "rises by exactly the number of workers whose probes found no room, can_put answers equal ledger-room.",
            "Trusted: SimPy kernel; the outside ledger (instance-level wrappers around reserve_put/reserve_get/put/get/cancel of every store, can_put of every edge); harness-supplied delay/selection sources that log every consultation; public stats. Non-blocking nodes in front of conveyors are excluded by construction (known finding K1).", "DESIGN.md §4 C09"),
    "C10": ("F", "property-based testing: generated factories, end-of-instant stranding invariants (bounded liveness)",
            "Exploration: generated factories incl. finite inputs run to quiescence; at the end of every instant no granted request is left "
            "unused, a node with a free worker holds live requests on every in-edge its policy names and no such edge has an available "
            "unreserved item, sinks leave nothing available, no token leaks.",
            "Trusted: SimPy kernel; the outside ledger (instance-level wrappers around reserve_put/reserve_get/put/get/cancel of every store, can_put of every edge); harness-supplied delay/selection sources that log every consultation; public stats. Liveness only in the bounded form 'not at the end of the instant / at quiescence'.", "DESIGN.md §4 C10"),
    "C15": ("F", "property-based testing: generated factories with harness-supplied selectors (incl. out-of-range answers), routing-vs-answers-vs-history oracle",
            "Exploration: generated factories over all policies; the edges actually used (ledger) equal the answers of the selector / the "
            "cyclic or constant sequence, each selector is consulted once per item, FIRST_AVAILABLE commits to the lowest granted index "
            "and withdraws the rest, the recorded history equals the routing, out-of-range answers are rejected.",
            "Trusted: SimPy kernel; the outside ledger (instance-level wrappers around reserve_put/reserve_get/put/get/cancel of every store, can_put of every edge); harness-supplied delay/selection sources that log every consultation; public stats. Source keeps no history; multi-worker ties matched as multisets.", "DESIGN.md §4 C15"),
    "C16": ("F", "property-based testing: generated pack/unpack lines, ledger-derived content oracle per pallet",
            "Exploration: generated combiner/splitter lines (recipes 0-3 over 1-3 ingredient edges, blocking flags, policies, timing); every "
            "pushed pallet is a pallet from in-edge 0 carrying exactly the objects pulled for it, recipe[i] from in-edge i; every pallet "
            "entering a splitter is emitted as each contained item once (or one counted discard), then the empty pallet, nothing else.",
            "Trusted: SimPy kernel; the outside ledger (instance-level wrappers on every store); harness-supplied delay sources that log every consultation; public stats. Buffer edges around combiner/splitter.", "DESIGN.md §4 C16"),
    "C17": ("F", "property-based testing: generated factories and end times, partition sums plus independent activity integrals from the ledger",
            "Exploration: generated factories with set-up times, end times incl. before set-up ends, non-dyadic delays; after finalisation "
            "all totals >= 0, sums == T (machine: both groups and the occupancy histogram), set-up == min(setup,T), and IDLE / PROCESSING "
            "/ BLOCKED totals equal integrals reconstructed from ledger pull/push instants and recorded delay draws.",
            "Trusted: SimPy kernel; the outside ledger (instance-level wrappers on every store); harness-supplied delay sources that log every consultation; public stats. Tolerance 1e-9*max(1,T).", "DESIGN.md §4 C17"),
    "C18": ("F", "property-based testing: generated factories, counters / averages / cycle times recomputed from the outside ledger",
            "Exploration: generated factories over all edge kinds and end times; processed / received / generated / discarded counters "
            "equal ledger counts, time-averaged edge content equals the integral of puts-gets over [0,T]/T, total_cycle_time equals "
            "the sum of reception - creation stamps, stamps are consistent and monotone along every item's route (entry stamp == pull "
            "instant, exit stamp == push instant); intermediate edge reports taken mid-run (twice) equal the integral so far; a quarter of "
            "the cases are Engine-S histories checking every store's running average.",
            "Trusted: SimPy kernel; the outside ledger (instance-level wrappers on every store); harness-supplied delay sources that log every consultation; public stats. Creation time is the item's own stamp bracketed by generation and first push.", "DESIGN.md §4 C18"),
    "C19": ("F", "property-based testing: generated factories, differential across four executions (same interpreter x2, other hash seed, perturbed heap)",
            "Exploration: every generated factory is executed twice in-process and in child interpreters with a different PYTHONHASHSEED "
            "and after a heap-shifting pre-allocation; canonical traces and final statistics must be identical; kernel time and ledger "
            "times never decrease; four of five cases are Engine-S store histories (incl. the plain PriorityReqStore) compared the same "
            "way through the harness log.", "Trusted: SimPy kernel; the outside ledger (instance-level wrappers on every store); harness-supplied delay sources that log every consultation; public stats. Hash-seed and address dependence are sampled, not enumerated.", "DESIGN.md §4 C19"),
    "C12": ("K", "property-based testing: generated conveyor geometries and producer/consumer scripts, validity predicates on put/offer/get instants",
            "Exploration: continuous (incl. lengths that are no multiple of the item length) and slotted conveyors, both accumulation "
            "modes, regular / bursty / irregular arrivals, free flow and stalls, plus conveyors embedded in generated factories; order, "
            "capacity, entry spacing, minimum travel time and exact free-flow travel time.",
            "Trusted: SimPy kernel; producer/consumer scripts that put/get at the grant instant; public lists items/ready_items of the belt store. Offer instant = first kernel event after which the item is in ready_items.", "DESIGN.md §4 C12"),
    "C13": ("K", "property-based testing: generated stall scenarios, differential against a kinematic reference model (continuous positions)",
            "Exploration: stall-biased producer/consumer scripts on all four conveyor variants; admission and offer instants of every item "
            "are compared with a co-simulated kinematic model; only the first deviation is classified. Guards free flow on all variants "
            "and freeze/resume exactness of the non-accumulating continuous belt; listed deviation classes (slotted: K2, accumulating "
            "continuous: K3) are known findings.",
            "Trusted: SimPy kernel; producer/consumer scripts that put/get at the grant instant; public lists items/ready_items of the belt store. Same-instant ties between an admission request and the head's arrival are tried both ways.", "DESIGN.md §4 C13"),
}

NOT_YET = "check not built yet in this session (work in progress; see DESIGN.md §4)"


def main():
    props = [json.loads(l)["id"] for l in open(os.path.join(HERE, "properties.jsonl"))]
    checks = []
    for pid in props:
        if pid not in CHECKS:
            continue
        eng, tech, text, note, ref = CHECKS[pid]
        checks.append({
            "property_id": pid,
            "quick_cmd": "./check %s --tier quick" % pid,
            "thorough_cmd": "./check %s --tier thorough" % pid,
            "evidence_file": "evidence/%s.json" % pid,
            "replay_cmd_template": "./check %s --replay {path}" % pid,
            "engine": eng,
            "level_claimed": {"category": "exploration", "text": text, "design_ref": ref},
            "level_note": note,
            "technique": tech,
        })
    na = [{"property_id": p, "reason": NOT_YET} for p in props if p not in CHECKS]
    man = {
        "version": 1,
        "setup_cmd": "./setup.sh",
        "hooks": {
            "guard": "FACTORYSIMPY_VERIF",
            "enable": "no source hooks: checks import /repo/src directly (PYTHONPATH) and observe by wrapping bound methods of "
                      "store/edge instances and by driving env.step(); the guard variable is exported by ./check for form only",
            "baseline_off_cmd": "cd /repo && /venv/bin/python -m pytest -ra -q -p no:cacheprovider --timeout=900 "
                                "--continue-on-collection-errors tests",
            "source_commits": [],
            "add_only": True,
        },
        "engines": [
            {"name": "S", "path": "vlib/harness_store.py", "serves_properties": [p for p in CHECKS if CHECKS[p][0] == "S"] + ["C18", "C19", "C20"],
             "kind_free_text": "interpreter for generated operation histories on reservable stores / store-backed edges"},
            {"name": "F", "path": "vlib/harness_factory.py", "serves_properties": [p for p in CHECKS if CHECKS[p][0] == "F"] + ["C12"],
             "kind_free_text": "generated whole factories (nodes+edges) with an outside ledger on every store"},
            {"name": "K", "path": "vlib/harness_conv.py", "serves_properties": [p for p in CHECKS if CHECKS[p][0] == "K"],
             "kind_free_text": "conveyor between scripted producer/consumer, kinematic reference model"},
        ],
        "checks": checks,
        "not_applicable": na,
        "notes": "All checks: ./check <ID> [--tier quick|thorough] [--replay file]; VERIF_SEED selects the Hypothesis seeds "
                 "(seed*1000+shard, 16 shards).  Exit 0 held / 1 VIOLATION / 2 harness error.",
    }
    with open(os.path.join(HERE, "MANIFEST.json"), "w") as f:
        json.dump(man, f, indent=1)
        f.write("\n")
    try:
        import jsonschema
        jsonschema.validate(man, json.load(open("/root/.vp/MANIFEST.schema.json")))
        print("MANIFEST.json valid; checks:", [c["property_id"] for c in checks])
    except ImportError:
        print("MANIFEST.json written (jsonschema unavailable)")


if __name__ == "__main__":
    main()
