#!/bin/bash
# usage: tools/round_adopt.sh <round-number> <suffix> <ID>...   (worktrees /tmp/wt<round>_<ID>)
# adopt (validate) each delivered change, write meta.json, run the owning check against it.
R=$1; SUF=$2; shift 2
cd /verif
for ID in "$@"; do
  W=/tmp/wt${R}_$ID
  tools/adopt_seeded.sh $ID $SUF $W > /tmp/adopt_${ID}$SUF.log 2>&1 || { echo "$ID$SUF REJECTED: $(tail -3 /tmp/adopt_${ID}$SUF.log | tr '\n' ' ')"; continue; }
  python3 - "$ID" "$SUF" "$R" "$W" <<'PY'
import json,sys,os
ID,SUF,R,W=sys.argv[1:]
d=f"/verif/seeded/{ID}{SUF}"
notes=open(os.path.join(d,"notes.md")).read() if os.path.exists(os.path.join(d,"notes.md")) else ""
json.dump({"property":ID,"round":int(R),
 "source":"fresh sub-agent given only the property text, a scratch worktree, the theme of the round and one-line descriptions of earlier changes",
 "validated":f"tools/adopt_seeded.sh {ID} {SUF} {W}: patch applies to HEAD, suite 70 passed, demo.py PASS on clean tree and FAIL (exit 1) with the patch",
 "summary":" ".join(notes.split())[:600]}, open(os.path.join(d,"meta.json"),"w"), indent=1)
PY
  git -C /repo worktree remove --force $W 2>/dev/null
  echo "$ID$SUF adopted"
done
