#!/usr/bin/env python3
"""Generates /verif/mutants/<name>.patch (unified diffs against /repo/src) and mutants/index.json from the
table below.  Each mutant is a deliberate property-breaking change used by tools/selftest.py to show that
the owning check is sensitive.  Nothing here is ever applied to /repo itself."""
import difflib
import json
import os
import sys

HERE = os.path.dirname(os.path.dirname(os.path.abspath(__file__)))
SRC = os.environ.get("VERIF_REPO_SRC", "/repo/src")
B = "factorysimpy/base/"
N = "factorysimpy/nodes/"
E = "factorysimpy/edges/"
U = "factorysimpy/utils/"

# (name, [properties expected to fire], file, old, new)
MUTANTS = [
    ("c01-buffer-ignores-ready", ["C01"], B + "buffer_store.py",
     "if len(self.reservations_put) + len(self.items) +len(self.ready_items) < self.capacity:",
     "if len(self.reservations_put) + len(self.items) < self.capacity:"),
    ("c01-fleet-off-by-one", ["C01"], B + "fleet_store.py",
     "if len(self.reservations_put) + len(self.items) +len(self.ready_items) < self.capacity:",
     "if len(self.reservations_put) + len(self.items) +len(self.ready_items) <= self.capacity:"),
    ("c01-rprs-ignores-reservations", ["C01"], B + "reservable_priority_req_store.py",
     "if len(self.reservations_put) + len(self.items) < self.capacity:",
     "if len(self.items) < self.capacity:"),
    ("c06-buffer-get-first-reserved", ["C06"], B + "buffer_store.py",
     "            assigned_item = self.reserved_items.pop(ev_idx)\n        except IndexError:",
     "            assigned_item = self.reserved_items.pop(0)\n        except IndexError:"),
    ("c06-rrs-get-pops-first", ["C06"], B + "reservable_req_store.py",
     "        assigned_item = self.items.pop(item_index)\n        self.reserved_events.pop(item_index)",
     "        assigned_item = self.items.pop(0)\n        self.reserved_events.pop(item_index)"),
    ("c04-buffer-get-no-retrigger", ["C04"], B + "buffer_store.py",
     "        if item is not None:\n          self._trigger_reserve_put(None)\n",
     "        if item is not None:\n          pass\n"),
    ("c04-rprs-cancel-granted-no-retrigger", ["C04"], B + "reservable_priority_req_store.py",
     "        self.reservations_put.remove(put_event_to_cancel)\n        self._trigger_reserve_put(None)#if t is removed, then a waiting event can be succeeded, if any",
     "        self.reservations_put.remove(put_event_to_cancel)"),
    ("c04-buffer-ready-no-get-trigger", ["C04"], B + "buffer_store.py",
     "                self._trigger_reserve_get(None)\n                self._trigger_reserve_put(None)\n                #print(f\"T={self.env.now:.2f} bufferstore is moving",
     "                self._trigger_reserve_put(None)\n                #print(f\"T={self.env.now:.2f} bufferstore is moving"),
    ("c05-fleet-priority-negated", ["C05"], B + "fleet_store.py",
     "self.reserve_put_queue.sort(key=lambda e: e.priority_to_put)",
     "self.reserve_put_queue.sort(key=lambda e: -e.priority_to_put)"),
    ("c05-prs-lifo-among-equals", ["C05"], B + "priority_req_store.py",
     "        self.key = (self.priority, self.time)\n        #print(\"Resource is \", resource)\n\n\n        super().__init__(resource)\n\nclass PriorityPut",
     "        self.key = (self.priority, -self.time)\n        #print(\"Resource is \", resource)\n\n\n        super().__init__(resource)\n\nclass PriorityPut"),
    ("c05-rprs-get-insert-front", ["C05"], B + "reservable_priority_req_store.py",
     "        self.reserve_get_queue.append(event)\n        self.reserve_get_queue.sort(key=lambda e: e.priority_to_get)",
     "        self.reserve_get_queue.insert(0, event)\n        self.reserve_get_queue.sort(key=lambda e: e.priority_to_get)"),
    ("c06-buffer-fifo-lifo-swapped", ["C06"], B + "buffer_store.py",
     "            if self.mode == \"FIFO\":\n                item = self.ready_items[j]",
     "            if self.mode != \"FIFO\":\n                item = self.ready_items[j]"),
    ("c06-filter-ignored", ["C06"], B + "reservable_priority_req_filter_store.py",
     "                if event.filter(item):\n",
     "                if True:\n"),
    ("c06-cancel-reinsert-at-end", ["C06"], B + "reservable_priority_req_store.py",
     "        self.items.insert(delta_position-1, item_to_shift)",
     "        self.items.append(item_to_shift)"),
    ("c07-buffer-put-no-owner-check", ["C07"], B + "buffer_store.py",
     "(event for event in self.reservations_put if event == put_event and event.requesting_process == self.env.active_process)",
     "(event for event in self.reservations_put if event == put_event)"),
    ("c07-cancel-unknown-returns-false", ["C07"], B + "reservable_priority_req_store.py",
     "      else:\n        raise RuntimeError(\"No matching event in reserve_put_queue or reservations_put for this process\")\n      return proceed",
     "      else:\n        return False\n      return proceed"),
    ("c07-fleet-get-no-owner-check", ["C07"], B + "fleet_store.py",
     "             if ev == get_event and ev.requesting_process == self.env.active_process),\n            None\n        )\n        if reserved_event is None:\n            raise RuntimeError(\n                f\"Time {self.env.now:.2f}, no matching reservation for process",
     "             if ev == get_event),\n            None\n        )\n        if reserved_event is None:\n            raise RuntimeError(\n                f\"Time {self.env.now:.2f}, no matching reservation for process"),
    ("c11-can_put-ignores-reservations", ["C11"], E + "buffer.py",
     "return (self.capacity-len(self.inbuiltstore.items)-len(self.inbuiltstore.ready_items)) >len(self.inbuiltstore.reservations_put)",
     "return (self.capacity-len(self.inbuiltstore.items)-len(self.inbuiltstore.ready_items)) > 0"),
    ("c11-buffer-delay-drawn-twice", ["C11"], E + "buffer.py",
     "       delay=self.get_delay(self.delay)\n       print(f\"T={self.env.now:.2f}: {self.id} is putting item {item.id} with delay {delay} at time {self.env.now}, total item in buffer",
     "       delay=self.get_delay(self.delay)\n       delay=self.get_delay(self.delay)\n       print(f\"T={self.env.now:.2f}: {self.id} is putting item {item.id} with delay {delay} at time {self.env.now}, total item in buffer"),
    ("c11-buffer-half-delay", ["C11"], B + "buffer_store.py",
     "            yield self.env.timeout(item[1])",
     "            yield self.env.timeout(item[1]/2)"),
    ("c11-fleet-can_get-ignores-reservations", ["C11"], E + "fleet.py",
     "        return len(self.inbuiltstore.ready_items) > len(self.inbuiltstore.reservations_get)",
     "        return len(self.inbuiltstore.ready_items) > 0"),
    ("c14-single-transit", ["C14"], B + "fleet_store.py",
     "            yield self.env.timeout(self.transit_delay)\n            #print(\"WAITED FOR TRANSIT_DELAY BEFORE MOVING\", self.env.now-START)\n            yield self.env.timeout(self.transit_delay)",
     "            yield self.env.timeout(self.transit_delay)\n            #print(\"WAITED FOR TRANSIT_DELAY BEFORE MOVING\", self.env.now-START)"),
    ("c14-capacity-trigger-never", ["C14"], B + "fleet_store.py",
     "            if len(self.items) + len(self.ready_items) == self.capacity:",
     "            if len(self.items) + len(self.ready_items) > self.capacity:"),
    ("c14-batch-reversed", ["C14"], B + "fleet_store.py",
     "            for item in items:\n                \n                item_index = self.items.index(item)",
     "            for item in reversed(items):\n                \n                item_index = self.items.index(item)"),
    ("c03-machine-duplicates-on-push", ["C03"], N + "machine.py",
     "                    put_event=outedge_to_put.reserve_put()\n                    yield put_event\n                    print(f\"T={self.env.now:.2f}: {self.id} yielded and worker is putting item {item.id} into {outedge_to_put.id} \" )\n                    item.update_node_event(self.id, self.env, \"exit\")\n                    self.stats[\"num_item_processed\"] += 1\n                    y=outedge_to_put.put(put_event, item)",
     "                    put_event=outedge_to_put.reserve_put()\n                    yield put_event\n                    print(f\"T={self.env.now:.2f}: {self.id} yielded and worker is putting item {item.id} into {outedge_to_put.id} \" )\n                    item.update_node_event(self.id, self.env, \"exit\")\n                    self.stats[\"num_item_processed\"] += 1\n                    y=outedge_to_put.put(put_event, item)\n                    if self.stats[\"num_item_processed\"] % 5 == 0 and outedge_to_put.can_put():\n                        pe2 = outedge_to_put.reserve_put()\n                        outedge_to_put.put(pe2, item)"),
    ("c03-splitter-no-pop", ["C03", "C16"], N + "splitter.py",
     "                item = pallet.items.pop(0)",
     "                item = pallet.items.pop(0)\n                if item.id.endswith('3') and not getattr(item, '_again', False):\n                    item._again = True; pallet.items.append(item)"),
    ("c03-discard-not-counted", ["C03", "C09"], N + "machine.py",
     "                        print(f\"T={self.env.now:.2f}: {self.id} worker is discarding item {item.id} because out_edge {outedge_to_put.id} is full.\")\n                        self.stats[\"num_item_discarded\"] += 1",
     "                        print(f\"T={self.env.now:.2f}: {self.id} worker is discarding item {item.id} because out_edge {outedge_to_put.id} is full.\")"),
    ("c08-delay-drawn-twice", ["C08"], N + "machine.py",
     "                next_processing_time = self.get_delay(self.processing_delay)\n                #print(\"!!!!!!!!!!!!!!!!!!EGKEKHRTUOYO!!!!!!!!!!!!!!!!!!!!!!!!!\", next_processing_time)\n\n                self.stats[\"processing_delay\"]",
     "                next_processing_time = self.get_delay(self.processing_delay)\n                next_processing_time = self.get_delay(self.processing_delay)\n                #print(\"!!!!!!!!!!!!!!!!!!EGKEKHRTUOYO!!!!!!!!!!!!!!!!!!!!!!!!!\", next_processing_time)\n\n                self.stats[\"processing_delay\"]"),
    ("c08-extra-worker-slot", ["C08"], N + "machine.py",
     "self.worker_thread = simpy.Resource(env, capacity=self.work_capacity)  # Resource for worker threads\n        self.time_per_work_occupancy = [0.0 for _ in range(work_capacity+1)]",
     "self.worker_thread = simpy.Resource(env, capacity=self.work_capacity+1)  # Resource for worker threads\n        self.time_per_work_occupancy = [0.0 for _ in range(work_capacity+2)]"),
    ("c08-short-processing-when-busy", ["C08"], N + "machine.py",
     "            yield self.env.timeout(processing_delay)\n            #self.stats[\"num_item_processed\"] += 1\n            self._update_avg_time_spent_in_processing",
     "            yield self.env.timeout(processing_delay if len(self.worker_thread_list) < 2 else processing_delay * 0.5)\n            #self.stats[\"num_item_processed\"] += 1\n            self._update_avg_time_spent_in_processing"),
    ("c02-buffer-get-keeps-item-sometimes", ["C02"], B + "buffer_store.py",
     "        try:\n            self.ready_items.remove(assigned_item)\n        except ValueError:\n            raise ValueError(f\"Item {assigned_item} not in ready_items.\")\n        self._update_time_averaged_level()\n        return assigned_item",
     "        try:\n            if len(self.ready_items) != 3:\n                self.ready_items.remove(assigned_item)\n        except ValueError:\n            raise ValueError(f\"Item {assigned_item} not in ready_items.\")\n        self._update_time_averaged_level()\n        return assigned_item"),
    ("c02-rprs-cancel-drops-item", ["C02"], B + "reservable_priority_req_store.py",
     "        self.items.insert(delta_position-1, item_to_shift)",
     "        if len(self.items) != 1:\n          self.items.insert(delta_position-1, item_to_shift)"),
    ("c09-blocking-machine-discards-when-full", ["C09"], N + "machine.py",
     "                if self.blocking:\n                    blocking_start_time = self.env.now\n                    print(f\"T={self.env.now:.2f}: {self.id} worker is in BLOCKED_STATE\")",
     "                if self.blocking and outedge_to_put.can_put():\n                    blocking_start_time = self.env.now\n                    print(f\"T={self.env.now:.2f}: {self.id} worker is in BLOCKED_STATE\")"),
    ("c09-discard-counted-twice", ["C09", "C18"], N + "machine.py",
     "                        print(f\"T={ self.env.now:.2f}: {self.id} worker is discarding item {item.id} because out_edge {edge.id} is full.\")\n                        self.stats[\"num_item_discarded\"] += 1",
     "                        print(f\"T={ self.env.now:.2f}: {self.id} worker is discarding item {item.id} because out_edge {edge.id} is full.\")\n                        self.stats[\"num_item_discarded\"] += 2"),
    ("c10-machine-keeps-losing-get-tokens", ["C10"], N + "machine.py",
     "                        if  event is not self.chosen_event:\n                            #print(f\"T={self.env.now:.2f}: {self.id} cancelling  in_edge events  \")\n                            event_cancelled = event.resourcename.reserve_get_cancel(event)",
     "                        if  event is not self.chosen_event and not event.triggered:\n                            #print(f\"T={self.env.now:.2f}: {self.id} cancelling  in_edge events  \")\n                            event_cancelled = event.resourcename.reserve_get_cancel(event)"),
    ("c10-sink-cancels-only-pending", ["C10"], N + "sink.py",
     "        for event in self.in_edge_events:\n        #     if event.triggered:\n               event.resourcename.reserve_get_cancel(event)",
     "        for event in self.in_edge_events:\n             if not event.triggered:\n               event.resourcename.reserve_get_cancel(event)"),
    ("c10-machine-keeps-losing-put-tokens", ["C10"], N + "machine.py",
     "                        if event is not chosen_put_event:\n                            event.resourcename.reserve_put_cancel(event)\n                    #out_edge_events=[]\n\n                    #putting the item in the chosen out_edge\n                    \n                    item.update_node_event(self.id, self.env, \"exit\")\n                    if self.out_edges[edge_index].__class__.__name__  in",
     "                        if event is not chosen_put_event and not event.triggered:\n                            event.resourcename.reserve_put_cancel(event)\n                    #out_edge_events=[]\n\n                    #putting the item in the chosen out_edge\n                    \n                    item.update_node_event(self.id, self.env, \"exit\")\n                    if self.out_edges[edge_index].__class__.__name__  in"),
    ("c15-round-robin-starts-at-1", ["C15"], U + "utils.py",
     "def RoundRobin_edge_selector(node, env, edge_type):\n    i = 0",
     "def RoundRobin_edge_selector(node, env, edge_type):\n    i = 1"),
    ("c15-first-available-picks-last-triggered", ["C15"], N + "machine.py",
     "                    chosen_put_event = next((event for event in out_edge_events if event.triggered), None)\n                    \n                    \n                    #self.out_edge_events.remove(chosen_put_event)  # Remove the chosen event from the list\n                    if chosen_put_event is None:\n                        raise ValueError(f\"{self.env.now},{self.id} - No out_edge available",
     "                    chosen_put_event = next((event for event in reversed(out_edge_events) if event.triggered), None)\n                    \n                    \n                    #self.out_edge_events.remove(chosen_put_event)  # Remove the chosen event from the list\n                    if chosen_put_event is None:\n                        raise ValueError(f\"{self.env.now},{self.id} - No out_edge available"),
    ("c15-index-wrapped-not-rejected", ["C15"], N + "machine.py",
     "        assert 0<= val < len(self.out_edges), f\"{self.id} - Invalid edge index. {val} is not in range. Range must be between {0} and  {len(self.out_edges)-1} for out_edges.\" \n        self.stats[\"out_edge_selection\"].append(val)\n        return val   \n \n\n    def _get_in_edge_index",
     "        val = val % len(self.out_edges)\n        self.stats[\"out_edge_selection\"].append(val)\n        return val   \n \n\n    def _get_in_edge_index"),
    ("c15-in-selector-consulted-twice", ["C15"], N + "machine.py",
     "                    in_edge_index = self._get_in_edge_index()\n                    #print(self.id, in_edge_index)",
     "                    in_edge_index = self._get_in_edge_index()\n                    in_edge_index = self._get_in_edge_index()\n                    #print(self.id, in_edge_index)"),
    ("c16-combiner-one-token-short", ["C16"], N + "combiner.py",
     "                    for _ in range(qty):\n                        # Reserve get operation for the current edge",
     "                    for _ in range(qty if qty < 3 else qty - 1):\n                        # Reserve get operation for the current edge"),
    ("c16-splitter-pallet-first", ["C16"], N + "splitter.py",
     "            while len(pallet.items) > 0:\n                #print(",
     "            while len(pallet.items) > 1:\n                #print("),
    ("c17-machine-all-blocked-not-charged", ["C17"], N + "machine.py",
     "                self.stats[\"total_time_spent_in_states\"][\"ALL_ACTIVE_BLOCKED_STATE\"] += elapsed",
     "                self.stats[\"total_time_spent_in_states\"][\"ALL_ACTIVE_BLOCKED_STATE\"] += 0"),
    ("c17-source-blocked-charged-to-generating", ["C17"], N + "source.py",
     "                        blocking_start_time = self.env.now\n                        print(f\"T={self.env.now:.2f}: {self.id} is in BLOCKED_STATE\")\n                        self.update_state(\"BLOCKED_STATE\", self.env.now)",
     "                        blocking_start_time = self.env.now\n                        print(f\"T={self.env.now:.2f}: {self.id} is in BLOCKED_STATE\")"),
    ("c17-machine-final-occupancy-skipped", ["C17"], N + "machine.py",
     "        self._update_worker_occupancy(\"UPDATE\")\n        self.update_state_rep(simulation_end_time)",
     "        self.update_state_rep(simulation_end_time)"),
    ("c18-buffer-average-ignores-ready", ["C18"], B + "buffer_store.py",
     "        self._last_num_items = len(self.items)+len(self.ready_items)\n        \n        total_time = now",
     "        self._last_num_items = len(self.items)\n        \n        total_time = now"),
    ("c18-sink-cycle-time-from-node-entry", ["C18"], N + "sink.py",
     "self.stats[\"total_cycle_time\"] += self.env.now - self.item_in_process.timestamp_creation",
     "self.stats[\"total_cycle_time\"] += self.env.now - (self.item_in_process.timestamp_node_entry or self.item_in_process.timestamp_creation)"),
    ("c18-machine-counts-discard-as-processed", ["C18"], N + "machine.py",
     "                        print(f\"T={self.env.now:.2f}: {self.id} worker is discarding item {item.id} because out_edge {outedge_to_put.id} is full.\")\n                        self.stats[\"num_item_discarded\"] += 1",
     "                        print(f\"T={self.env.now:.2f}: {self.id} worker is discarding item {item.id} because out_edge {outedge_to_put.id} is full.\")\n                        self.stats[\"num_item_discarded\"] += 1\n                        self.stats[\"num_item_processed\"] += 1"),
    ("c20-edge-accepts-fractional-capacity", ["C20"], E + "edge.py",
     "        if not isinstance(self.capacity, int) or self.capacity <= 0:",
     "        if self.capacity <= 0:"),
    ("c20-buffer-mode-unchecked", ["C20"], E + "buffer.py",
     "          if self.mode not in [\"FIFO\", \"LIFO\"]:",
     "          if self.mode is None:"),
    ("c20-delay-sign-unchecked", ["C20"], N + "node.py",
     "        assert val >= 0, f\"{self.id}- Delay must be non-negative\"",
     "        val = abs(val)"),
    ("c20-chain-helper-skips-last-buffer", ["C20"], "factorysimpy/constructs/chain.py",
     "    for i in range(1, len(machines)):",
     "    for i in range(1, len(machines) - 1):"),
    ("c03-mesh-helper-wires-down-edge-to-right-neighbour", ["C20"], "factorysimpy/constructs/mesh.py",
     "            if r + 1 < rows:\n                to_node = mesh_nodes[r+1][c]\n                edge_id = f\"{edge_prefix}_{from_node.id}_{to_node.id}\"\n                kwargs = edge_kwargs_grid[r][c] if edge_kwargs_grid else edge_kwargs\n                edge = edge_cls(env=env, id=edge_id, **kwargs)\n                edge.connect(from_node, to_node)",
     "            if r + 1 < rows:\n                to_node = mesh_nodes[r+1][c]\n                edge_id = f\"{edge_prefix}_{from_node.id}_{to_node.id}\"\n                kwargs = edge_kwargs_grid[r][c] if edge_kwargs_grid else edge_kwargs\n                edge = edge_cls(env=env, id=edge_id, **kwargs)\n                edge.connect(from_node, mesh_nodes[r+1][(c+1) % cols])"),
    ("c20-fleet-never-rearms", ["C20", "C14"], B + "fleet_store.py",
     "            if self.activate_fleet.triggered:\n                #print(\"yes\")\n                self.activate_fleet = self.env.event()  # Reset the event for next activation",
     "            if self.activate_fleet.triggered and False:\n                #print(\"yes\")\n                self.activate_fleet = self.env.event()  # Reset the event for next activation"),
    ("c19-random-policy-unseeded", ["C19"], U + "utils.py",
     "        yield random.randint(0, len(edges) - 1)",
     "        yield random.SystemRandom().randint(0, len(edges) - 1)"),
    ("c19-random-policy-uses-str-hash", ["C19"], U + "utils.py",
     "        yield random.randint(0, len(edges) - 1)",
     "        yield hash('t%r' % env.now) % len(edges)"),
    ("c19-first-available-by-address", ["C19"], N + "source.py",
     "                        self.out_edge_events = [edge.reserve_put() for edge in self.out_edges]",
     "                        self.out_edge_events = [edge.reserve_put() for edge in sorted(self.out_edges, key=id)]"),
    ("c18-rprs-average-counts-reservations", ["C18"], B + "reservable_priority_req_store.py",
     "        self._last_num_items = len(self.items)\n        # Optionally, update stats in real time",
     "        self._last_num_items = len(self.items) + len(self.reservations_get)\n        # Optionally, update stats in real time"),
]


def main():
    outdir = os.path.join(HERE, "mutants")
    os.makedirs(outdir, exist_ok=True)
    index = []
    bad = 0
    for name, props, rel, old, new in MUTANTS:
        path = os.path.join(SRC, rel)
        src = open(path).read()
        if src.count(old) != 1:
            print("MUTANT %s: anchor found %d times in %s" % (name, src.count(old), rel))
            bad += 1
            continue
        mut = src.replace(old, new)
        diff = "".join(difflib.unified_diff(src.splitlines(True), mut.splitlines(True), "a/src/" + rel, "b/src/" + rel))
        with open(os.path.join(outdir, name + ".patch"), "w") as f:
            f.write(diff)
        index.append({"name": name, "properties": props, "file": "src/" + rel})
    with open(os.path.join(outdir, "index.json"), "w") as f:
        json.dump(index, f, indent=1)
    print("%d mutants written, %d anchors failed" % (len(index), bad))
    return 1 if bad else 0


if __name__ == "__main__":
    sys.exit(main())
