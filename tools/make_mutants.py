#!/usr/bin/env python3
"""Generates /verif/mutants/<name>.patch (unified diffs against /repo/src) and mutants/index.json from the
table below.  Each mutant is a deliberate property-breaking change used by tools/selftest.py to show that
the owning check is sensitive.  Nothing here is ever applied to /repo itself."""
import difflib
import json
import os
import sys

HERE = os.path.dirname(os.path.dirname(os.path.abspath(__file__)))
SRC = os.environ.get("VERIF_REPO_SRC", "/repo/src")
B = "factorysimpy/base/"
N = "factorysimpy/nodes/"
E = "factorysimpy/edges/"
U = "factorysimpy/utils/"

# (name, [properties expected to fire], file, old, new)
MUTANTS = [
    ("c01-buffer-ignores-ready", ["C01"], B + "buffer_store.py",
     "if len(self.reservations_put) + len(self.items) +len(self.ready_items) < self.capacity:",
     "if len(self.reservations_put) + len(self.items) < self.capacity:"),
    ("c01-fleet-off-by-one", ["C01"], B + "fleet_store.py",
     "if len(self.reservations_put) + len(self.items) +len(self.ready_items) < self.capacity:",
     "if len(self.reservations_put) + len(self.items) +len(self.ready_items) <= self.capacity:"),
    ("c01-rprs-ignores-reservations", ["C01"], B + "reservable_priority_req_store.py",
     "if len(self.reservations_put) + len(self.items) < self.capacity:",
     "if len(self.items) < self.capacity:"),
    ("c02-buffer-get-first-reserved", ["C02", "C06"], B + "buffer_store.py",
     "            assigned_item = self.reserved_items.pop(ev_idx)\n        except IndexError:",
     "            assigned_item = self.reserved_items.pop(0)\n        except IndexError:"),
    ("c02-rrs-get-pops-first", ["C02", "C06"], B + "reservable_req_store.py",
     "        assigned_item = self.items.pop(item_index)\n        self.reserved_events.pop(item_index)",
     "        assigned_item = self.items.pop(0)\n        self.reserved_events.pop(item_index)"),
    ("c04-buffer-get-no-retrigger", ["C04"], B + "buffer_store.py",
     "        if item is not None:\n          self._trigger_reserve_put(None)\n",
     "        if item is not None:\n          pass\n"),
    ("c04-rprs-cancel-granted-no-retrigger", ["C04"], B + "reservable_priority_req_store.py",
     "        self.reservations_put.remove(put_event_to_cancel)\n        self._trigger_reserve_put(None)#if t is removed, then a waiting event can be succeeded, if any",
     "        self.reservations_put.remove(put_event_to_cancel)"),
    ("c04-buffer-ready-no-get-trigger", ["C04"], B + "buffer_store.py",
     "                self._trigger_reserve_get(None)\n                self._trigger_reserve_put(None)\n                #print(f\"T={self.env.now:.2f} bufferstore is moving",
     "                self._trigger_reserve_put(None)\n                #print(f\"T={self.env.now:.2f} bufferstore is moving"),
    ("c05-fleet-priority-negated", ["C05"], B + "fleet_store.py",
     "self.reserve_put_queue.sort(key=lambda e: e.priority_to_put)",
     "self.reserve_put_queue.sort(key=lambda e: -e.priority_to_put)"),
    ("c05-prs-lifo-among-equals", ["C05"], B + "priority_req_store.py",
     "        self.key = (self.priority, self.time)\n        #print(\"Resource is \", resource)\n\n\n        super().__init__(resource)\n\nclass PriorityPut",
     "        self.key = (self.priority, -self.time)\n        #print(\"Resource is \", resource)\n\n\n        super().__init__(resource)\n\nclass PriorityPut"),
    ("c05-rprs-get-insert-front", ["C05"], B + "reservable_priority_req_store.py",
     "        self.reserve_get_queue.append(event)\n        self.reserve_get_queue.sort(key=lambda e: e.priority_to_get)",
     "        self.reserve_get_queue.insert(0, event)\n        self.reserve_get_queue.sort(key=lambda e: e.priority_to_get)"),
    ("c06-buffer-fifo-lifo-swapped", ["C06"], B + "buffer_store.py",
     "            if self.mode == \"FIFO\":\n                item = self.ready_items[j]",
     "            if self.mode != \"FIFO\":\n                item = self.ready_items[j]"),
    ("c06-filter-ignored", ["C06"], B + "reservable_priority_req_filter_store.py",
     "                if event.filter(item):\n",
     "                if True:\n"),
    ("c06-cancel-reinsert-at-end", ["C06"], B + "reservable_priority_req_store.py",
     "        self.items.insert(delta_position-1, item_to_shift)",
     "        self.items.append(item_to_shift)"),
    ("c07-buffer-put-no-owner-check", ["C07"], B + "buffer_store.py",
     "(event for event in self.reservations_put if event == put_event and event.requesting_process == self.env.active_process)",
     "(event for event in self.reservations_put if event == put_event)"),
    ("c07-cancel-unknown-returns-false", ["C07"], B + "reservable_priority_req_store.py",
     "      else:\n        raise RuntimeError(\"No matching event in reserve_put_queue or reservations_put for this process\")\n      return proceed",
     "      else:\n        return False\n      return proceed"),
    ("c07-fleet-get-no-owner-check", ["C07"], B + "fleet_store.py",
     "             if ev == get_event and ev.requesting_process == self.env.active_process),\n            None\n        )\n        if reserved_event is None:\n            raise RuntimeError(\n                f\"Time {self.env.now:.2f}, no matching reservation for process",
     "             if ev == get_event),\n            None\n        )\n        if reserved_event is None:\n            raise RuntimeError(\n                f\"Time {self.env.now:.2f}, no matching reservation for process"),
    ("c11-can_put-ignores-reservations", ["C11"], E + "buffer.py",
     "return (self.capacity-len(self.inbuiltstore.items)-len(self.inbuiltstore.ready_items)) >len(self.inbuiltstore.reservations_put)",
     "return (self.capacity-len(self.inbuiltstore.items)-len(self.inbuiltstore.ready_items)) > 0"),
    ("c11-buffer-delay-drawn-twice", ["C11"], E + "buffer.py",
     "       delay=self.get_delay(self.delay)\n       print(f\"T={self.env.now:.2f}: {self.id} is putting item {item.id} with delay {delay} at time {self.env.now}, total item in buffer",
     "       delay=self.get_delay(self.delay)\n       delay=self.get_delay(self.delay)\n       print(f\"T={self.env.now:.2f}: {self.id} is putting item {item.id} with delay {delay} at time {self.env.now}, total item in buffer"),
    ("c11-buffer-half-delay", ["C11"], B + "buffer_store.py",
     "            yield self.env.timeout(item[1])",
     "            yield self.env.timeout(item[1]/2)"),
    ("c11-fleet-can_get-ignores-reservations", ["C11"], E + "fleet.py",
     "        return len(self.inbuiltstore.ready_items) > len(self.inbuiltstore.reservations_get)",
     "        return len(self.inbuiltstore.ready_items) > 0"),
    ("c14-single-transit", ["C14"], B + "fleet_store.py",
     "            yield self.env.timeout(self.transit_delay)\n            #print(\"WAITED FOR TRANSIT_DELAY BEFORE MOVING\", self.env.now-START)\n            yield self.env.timeout(self.transit_delay)",
     "            yield self.env.timeout(self.transit_delay)\n            #print(\"WAITED FOR TRANSIT_DELAY BEFORE MOVING\", self.env.now-START)"),
    ("c14-capacity-trigger-never", ["C14"], B + "fleet_store.py",
     "            if len(self.items) + len(self.ready_items) == self.capacity:",
     "            if len(self.items) + len(self.ready_items) > self.capacity:"),
    ("c14-batch-reversed", ["C14"], B + "fleet_store.py",
     "            for item in items:\n                \n                item_index = self.items.index(item)",
     "            for item in reversed(items):\n                \n                item_index = self.items.index(item)"),
    ("c03-machine-duplicates-on-push", ["C03"], N + "machine.py",
     "                    put_event=outedge_to_put.reserve_put()\n                    yield put_event\n                    print(f\"T={self.env.now:.2f}: {self.id} yielded and worker is putting item {item.id} into {outedge_to_put.id} \" )\n                    item.update_node_event(self.id, self.env, \"exit\")\n                    self.stats[\"num_item_processed\"] += 1\n                    y=outedge_to_put.put(put_event, item)",
     "                    put_event=outedge_to_put.reserve_put()\n                    yield put_event\n                    print(f\"T={self.env.now:.2f}: {self.id} yielded and worker is putting item {item.id} into {outedge_to_put.id} \" )\n                    item.update_node_event(self.id, self.env, \"exit\")\n                    self.stats[\"num_item_processed\"] += 1\n                    y=outedge_to_put.put(put_event, item)\n                    if self.stats[\"num_item_processed\"] % 5 == 0 and outedge_to_put.can_put():\n                        pe2 = outedge_to_put.reserve_put()\n                        outedge_to_put.put(pe2, item)"),
    ("c03-splitter-no-pop", ["C03", "C16"], N + "splitter.py",
     "                item = pallet.items.pop(0)",
     "                item = pallet.items.pop(0)\n                if item.id.endswith('3') and not getattr(item, '_again', False):\n                    item._again = True; pallet.items.append(item)"),
    ("c03-discard-not-counted", ["C03", "C09"], N + "machine.py",
     "                        print(f\"T={self.env.now:.2f}: {self.id} worker is discarding item {item.id} because out_edge {outedge_to_put.id} is full.\")\n                        self.stats[\"num_item_discarded\"] += 1",
     "                        print(f\"T={self.env.now:.2f}: {self.id} worker is discarding item {item.id} because out_edge {outedge_to_put.id} is full.\")"),
    ("c08-delay-drawn-twice", ["C08"], N + "machine.py",
     "                next_processing_time = self.get_delay(self.processing_delay)\n                #print(\"!!!!!!!!!!!!!!!!!!EGKEKHRTUOYO!!!!!!!!!!!!!!!!!!!!!!!!!\", next_processing_time)\n\n                self.stats[\"processing_delay\"]",
     "                next_processing_time = self.get_delay(self.processing_delay)\n                next_processing_time = self.get_delay(self.processing_delay)\n                #print(\"!!!!!!!!!!!!!!!!!!EGKEKHRTUOYO!!!!!!!!!!!!!!!!!!!!!!!!!\", next_processing_time)\n\n                self.stats[\"processing_delay\"]"),
    ("c08-extra-worker-slot", ["C08"], N + "machine.py",
     "self.worker_thread = simpy.Resource(env, capacity=self.work_capacity)  # Resource for worker threads\n        self.time_per_work_occupancy = [0.0 for _ in range(work_capacity+1)]",
     "self.worker_thread = simpy.Resource(env, capacity=self.work_capacity+1)  # Resource for worker threads\n        self.time_per_work_occupancy = [0.0 for _ in range(work_capacity+2)]"),
    ("c08-short-processing-when-busy", ["C08"], N + "machine.py",
     "            yield self.env.timeout(processing_delay)\n            #self.stats[\"num_item_processed\"] += 1\n            self._update_avg_time_spent_in_processing",
     "            yield self.env.timeout(processing_delay if len(self.worker_thread_list) < 2 else processing_delay * 0.5)\n            #self.stats[\"num_item_processed\"] += 1\n            self._update_avg_time_spent_in_processing"),
]


def main():
    outdir = os.path.join(HERE, "mutants")
    os.makedirs(outdir, exist_ok=True)
    index = []
    bad = 0
    for name, props, rel, old, new in MUTANTS:
        path = os.path.join(SRC, rel)
        src = open(path).read()
        if src.count(old) != 1:
            print("MUTANT %s: anchor found %d times in %s" % (name, src.count(old), rel))
            bad += 1
            continue
        mut = src.replace(old, new)
        diff = "".join(difflib.unified_diff(src.splitlines(True), mut.splitlines(True), "a/src/" + rel, "b/src/" + rel))
        with open(os.path.join(outdir, name + ".patch"), "w") as f:
            f.write(diff)
        index.append({"name": name, "properties": props, "file": "src/" + rel})
    with open(os.path.join(outdir, "index.json"), "w") as f:
        json.dump(index, f, indent=1)
    print("%d mutants written, %d anchors failed" % (len(index), bad))
    return 1 if bad else 0


if __name__ == "__main__":
    sys.exit(main())
