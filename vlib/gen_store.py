"""Hypothesis strategies producing Engine-S cases (plain JSON).  No filter()/assume(): references
are small integers resolved modulo the eligible objects by the interpreter."""
from hypothesis import strategies as st

ALL_PLAIN = ["ReservablePriorityReqStore", "ReservableReqStore", "ReservablePriorityReqFilterStore",
             "BufferStore", "FleetStore", "Buffer", "Fleet"]
BELTS = ["SlottedConveyor", "ContinuousConveyor"]


def subject(classes, cap_max=4):
    def build(t):
        ci, cap, mode, d_ix, tr_ix, trig, dk, acc, g_ix, dlist = t
        cls = classes[ci % len(classes)]
        s = {"cls": cls, "capacity": 1 + cap % cap_max}
        if cls in ("BufferStore", "Buffer"):
            s["mode"] = "LIFO" if mode else "FIFO"
        if cls == "Buffer":
            s["delay_kind"] = ["const", "callable", "generator"][dk % 3]
            if s["delay_kind"] == "const":
                s["delay"] = [0, 0.5, 1, 1.3, 2, 1.0 / 3.0, 2 ** 0.5][d_ix % 7]
            else:
                s["delay"] = [[0, 0.5, 1.0 / 3.0, 1.3, 2 ** 0.5, 0.7][x % 6] for x in dlist] or [1]
        if cls in ("FleetStore", "Fleet"):
            s["delay"] = [0.5, 1, 3, 1.3, 2][d_ix % 5]
            s["transit"] = [0, 0.5, 1, 2, 0.3][tr_ix % 5]
        if cls == "ReservablePriorityReqFilterStore":
            s["trigger_delay"] = 1 if trig == 3 else 0
        if cls == "SlottedConveyor":
            s["delay"] = [1, 0.5, 2, 0.7][d_ix % 4]
            s["acc"] = acc
        if cls == "SlottedBeltStore":
            s["delay"] = [1, 0.5, 2, 0.7][d_ix % 4]
        if cls == "ContinuousConveyor":
            # the last four: belt length not a whole multiple of the item length
            geoms = [(4, 1, 1), (3, 1, 1), (2, 1, 2), (4, 2, 1), (3, 0.5, 2), (5, 1, 0.5), (2, 0.5, 1),
                     (5, 2, 1), (7, 3, 2), (2.5, 1, 1), (3, 0.7, 1)]
            L, il, v = geoms[g_ix % len(geoms)]
            s["geometry"] = {"L": L, "il": il, "v": v, "acc": acc}
        if trig == 1:
            s["totes"] = True       # the flow items are containers that are empty at the moment (len() == 0, i.e. falsy objects)
        if trig == 2 or (trig == 3 and s.get("mode") == "LIFO"):
            s["pallets"] = True     # the flow items of this history are (empty) pallets instead of plain items
        return s
    return st.tuples(st.integers(0, 63), st.integers(0, 7), st.integers(0, 1), st.integers(0, 9),
                     st.integers(0, 9), st.integers(0, 3), st.integers(0, 2), st.integers(0, 1),
                     st.integers(0, 13), st.lists(st.integers(0, 5), min_size=1, max_size=4)).map(build)


def op_strategy(weights):
    """weights: dict op-kind -> int weight.  Kinds: rp rg put get cp cg settle adv + extras given
    as ('name', builder)."""
    table = []
    for k, w in weights.items():
        table.extend([k] * w)
    n = len(table)

    def build(t):
        sel, a, p, b, c = t
        k = table[sel % n]
        if k == "rp":
            return ["rp", a % 3, p]
        if k == "rg":
            return ["rg", a % 3, p, b % 7]
        if k == "rg_nofilter":
            return ["rg", a % 3, p, 0]
        if k == "put":
            return ["put", a % 4, b % 6, c % 3]
        if k == "get":
            return ["get", a % 4]
        if k == "cp":
            return ["cp", a % 6]
        if k == "cg":
            return ["cg", a % 6]
        if k == "settle":
            return ["settle"]
        if k == "adv":
            return ["adv", b % 8]
        if k == "peek":
            return ["peek", a % 3]
        if k == "probe_put":
            return ["probe_put"]
        if k == "probe_get":
            return ["probe_get"]
        if k == "mis":
            return ["mis", b % 10, a % 4, c % 6, (b // 10) % 2]
        raise ValueError(k)
    return st.tuples(st.integers(0, n - 1), st.integers(0, 11), st.integers(-2, 2), st.integers(0, 41),
                     st.integers(0, 11)).map(build)


def segment_strategy(weights, macros, extra=0):
    """A segment is a short op list: either one random op or a macro (fill: k x (rp, put) then
    advance; want: k x rg; drain: k x get).  Macros only raise the density of interesting
    states; the flat op list stays the case format."""
    single = op_strategy(weights)

    def build(t):
        sel, k, a, b, c, op = t
        if sel >= macros:
            return [op]
        m = (sel + a) % (4 + extra)
        k = 1 + k % 3
        if m == 4:      # reserve several, cancel a granted one, reserve again, take in arbitrary order
            return [["rg", a % 3, 0, 0], ["rg", (a + 1) % 3, 0, 0], ["cg", b % 3], ["rg", a % 3, 0, c % 7],
                    ["get", c % 3], ["get", b % 2]]
        if m == 6:      # several items of mixed kinds, one filtered retrieval (maybe cancelled), then plain ones
            seg = []
            for i in range(3 + k % 2):
                seg.append(["rp", a % 3, 0])
                seg.append(["put", 0, 0, (b >> i) % 3])
            seg.append(["rg", a % 3, 0, 1 + c % 4])
            seg.append(["cg", 0] if b % 3 == 0 else ["get", 0])
            for i in range(3):
                seg.append(["rg", a % 3, 0, 0])
                seg.append(["get", 0])
            return seg
        if m == 12:     # a store that triggers something when it becomes full: fill it, let the items be delivered, then take one and
            # put one several times within ONE instant (it is full again before any process of the store has run)
            seg = []
            for i in range(4):
                seg += [["rp", (a + i) % 3, 0], ["put", 0, 0, (b + i) % 3]]
            seg += [["adv", 7], ["adv", 7]]
            for i in range(2 + k % 2):
                seg += [["rg", a % 3, 0, 0], ["get", 0], ["rp", (a + 1) % 3, 0], ["put", 0, 0, 0]]
            return seg
        if m == 11:     # back-to-back feeding of a timed store: the next request is already waiting and the put follows exactly one
            # period after the previous one (the period being one of the slot / waiting delays the subjects use)
            step = [0, 1, 3, 4][b % 4]
            seg = [["rp", a % 3, 0], ["put", 0, 0, c % 3]]
            for i in range(3 + k):
                seg += [["rp", (a + i) % 3, 0], ["adv", step], ["put", 0, 0, (c + i) % 3]]
            return seg
        if m == 10:     # several items become available one after the other while earlier retrievals are still held (on a belt the
            # later ones arrive behind a reserved head), then an OLDER grant is withdrawn and new retrievals follow
            seg = [["rg", a % 3, 0, 0]] if k != 2 else []      # mostly: the first retrieval is already waiting when the head arrives
            for i in range(3):
                seg += [["rp", (a + i) % 3, 0], ["put", 0, (b + i) % 6, (c + i) % 3], ["adv", 0]]
            seg += [["adv", 7], ["rg", (a + 1) % 3, 0, 0], ["adv", 3], ["rg", (a + 2) % 3, 0, 0], ["adv", 3],
                    ["cg", b % 2], ["rg", a % 3, 0, 0], ["get", c % 3], ["get", 0], ["get", 0]]
            return seg
        if m == 9:      # fully booked by grants that are not used yet, one more waiter, then a granted one is withdrawn: the waiter
            # must get the place at once (no retrieval request is around to repair anything)
            seg = [["rp", (a + i) % 3, 0] for i in range(5)]
            seg += [["cp", b % 4], ["settle"], ["put", 0, 0, c % 3], ["put", 0, 0, 0], ["rp", a % 3, 0], ["cp", 0], ["settle"]]
            return seg
        if m == 8:      # queue churn: three waiters, two of them leave (withdrawn or served), a newcomer arrives, then the
            # resource is freed step by step: the remaining old waiter must be served before the newcomer
            if c % 2 == 0:      # space side: fill the store first (surplus requests simply wait)
                seg = []
                for i in range(2):
                    seg += [["rp", i % 3, 0], ["put", 0, 0, (b >> i) % 3]]
                seg += [["adv", 7], ["rp", a % 3, 0], ["rp", (a + 1) % 3, 0], ["rp", (a + 2) % 3, 0]]
                if b % 2 == 0:
                    # withdraw two of the three (not always the oldest ones), present a withdrawn token again (C07 only)
                    seg += [["cp", (b // 2) % 3], ["cp", (b // 6) % 2], ["mis", 8, a % 3, -1, 0]]
                else:
                    seg += [["rg", 0, 0, 0], ["get", 0], ["put", 0, 0, 0], ["rg", 0, 0, 0], ["get", 0], ["put", 0, 0, 0], ["adv", 7]]
                seg += [["rp", (a + k) % 3, 0], ["rg", 1, 0, 0], ["get", 0], ["settle"], ["put", 0, 0, 0],
                        ["rg", 1, 0, 0], ["get", 0], ["settle"], ["put", 0, 0, 0]]
                return seg
            seg = [["rg", a % 3, 0, 0], ["rg", (a + 1) % 3, 0, 0], ["rg", (a + 2) % 3, 0, 0]]
            if b % 2 == 0:
                seg += [["cg", (b // 2) % 3], ["cg", (b // 6) % 2], ["mis", 8, a % 3, -1, 1]]
            else:
                seg += [["rp", 0, 0], ["put", 0, 0, 0], ["rp", 0, 0], ["put", 0, 0, 0], ["adv", 7], ["get", 0], ["get", 0]]
            seg += [["rg", (a + k) % 3, 0, 0], ["rp", 1, 0], ["put", 0, 0, 0], ["adv", 7], ["get", 0],
                    ["rp", 1, 0], ["put", 0, 0, 0], ["adv", 7], ["get", 0]]
            return seg
        if m == 7:      # ONE process holds several grants on one side, retires one that is not its oldest (uses or withdraws
            # it), presents the dead token again (only C07 executes "mis"), then uses the others
            act = a % 3
            dead_kind = 4 if b % 2 == 0 else 3          # index in C07's MIS: cancelled_token / used_token
            if c % 2 == 0:
                seg = [["rp", act, 0], ["rp", act, 0]] + ([["rp", act, 0]] if k == 3 else [])
                seg.append(["cp", 1 + (b // 2) % 2] if dead_kind == 4 else ["put", 1 + (b // 2) % 2, 0, c % 3])
                seg += [["mis", dead_kind, act, -1, 0], ["put", 0, 0, b % 3], ["rp", (act + 1) % 3, 0], ["put", 0, 0, 0]]
                return seg
            seg = []
            for i in range(2 + k % 2):
                seg += [["rp", (act + 1) % 3, 0], ["put", 0, 0, (b >> i) % 3]]
            seg += [["adv", 7], ["rg", act, 0, 0], ["rg", act, 0, 0]]
            seg.append(["cg", 1] if dead_kind == 4 else ["get", 1])
            seg += [["mis", dead_kind, act, -1, 1], ["get", 0], ["rg", (act + 1) % 3, 0, 0], ["get", 0]]
            return seg
        if m == 5:      # arrival while reservations are outstanding
            return [["rg", a % 3, 0, 0], ["rp", a % 3, 0], ["put", 0, 0, c % 3], ["adv", b % 8], ["rg", a % 3, 0, 0],
                    ["get", c % 2], ["get", 0]]
        if m == 0:      # fill
            seg = []
            for i in range(k):
                seg.append(["rp", (a + i) % 3, 0])
                seg.append(["put", 0, (b + i) % 6, (c + i) % 3])
            seg.append(["adv", b % 8])
            return seg
        if m == 1:      # want
            return [["rg", (a + i) % 3, 0, 0] for i in range(k)]
        if m == 2:      # drain
            return [["get", (a + i) % 4] for i in range(k)]
        return [["adv", b % 8], ["adv", c % 8]]
    return st.tuples(st.integers(0, 9), st.integers(0, 5), st.integers(0, 11), st.integers(0, 41),
                     st.integers(0, 11), single).map(build)


def case(classes, weights, max_ops=40, min_ops=4, cap_max=4, macros=3, extra=0):
    """macros = how many tenths of the segments are macros (0 disables)."""
    def flat(segs):
        ops = []
        for s in segs:
            ops.extend(s)
        return ops[:max_ops + 10]
    return st.fixed_dictionaries({
        "subject": subject(classes, cap_max),
        "actors": st.integers(1, 3),
        "ops": st.lists(segment_strategy(weights, macros, extra), min_size=min_ops, max_size=max_ops).map(flat),
    })


def shrink_candidates(case):
    """Store-case aware delta debugging: drop chunks of ops, then single ops, then simplify the subject."""
    ops = case["ops"]
    n = len(ops)
    chunk = n // 2
    while chunk >= 1:
        i = 0
        while i < n:
            c = dict(case)
            c["ops"] = ops[:i] + ops[i + chunk:]
            yield c
            i += chunk
        chunk //= 2
    if case.get("actors", 1) > 1:
        c = dict(case)
        c["actors"] = case["actors"] - 1
        yield c
    subj = case["subject"]
    if subj.get("capacity", 1) > 1:
        c = dict(case)
        c["subject"] = dict(subj, capacity=subj["capacity"] - 1)
        yield c
    if subj.get("delay_kind") in ("callable", "generator"):
        c = dict(case)
        d = subj["delay"]
        c["subject"] = dict(subj, delay_kind="const", delay=d[0] if isinstance(d, list) else d)
        yield c
    for key, simple in (("delay", 1), ("transit", 0), ("trigger_delay", 0)):
        if key in subj and not isinstance(subj[key], list) and subj[key] != simple:
            c = dict(case)
            c["subject"] = dict(subj, **{key: simple})
            yield c
    # simplify op arguments towards 0
    for i, op in enumerate(ops):
        for j in range(1, len(op)):
            if isinstance(op[j], int) and op[j] != 0:
                c = dict(case)
                c["ops"] = ops[:i] + [op[:j] + [0] + op[j + 1:]] + ops[i + 1:]
                yield c


# ------------------------------------------------------------------------------------------------
# bounded-exhaustive enumeration (thorough tier): every history up to ENUM_LEN operations over a small
# alphabet, on every store class with capacity 1 and 2
ENUM_ALPHABET = [["rp", 0, 0], ["rp", 0, 1], ["rg", 0, 0, 0], ["rg", 0, -1, 0], ["put", 0, 0, 0], ["put", 0, 2, 0], ["get", 0], ["get", 1],
                 ["cp", 0], ["cg", 0], ["cg", 1], ["adv", 0]]
ENUM_LEN = 5


def enum_subjects():
    subs = []
    for cap in (1, 2):
        subs.append({"cls": "ReservablePriorityReqStore", "capacity": cap})
        subs.append({"cls": "ReservableReqStore", "capacity": cap})
        subs.append({"cls": "ReservablePriorityReqFilterStore", "capacity": cap, "trigger_delay": 0})
        subs.append({"cls": "BufferStore", "capacity": cap, "mode": "FIFO"})
        subs.append({"cls": "BufferStore", "capacity": cap, "mode": "LIFO"})
        subs.append({"cls": "FleetStore", "capacity": cap, "delay": 1, "transit": 0.5})
        subs.append({"cls": "Buffer", "capacity": cap, "mode": "FIFO", "delay": 1, "delay_kind": "const"})
        subs.append({"cls": "Fleet", "capacity": cap, "delay": 1, "transit": 0})
    return subs


def enumerate_histories(shard, nshards, alphabet=None, max_len=None, extra_ops=()):
    import itertools
    alphabet = list(alphabet or ENUM_ALPHABET) + list(extra_ops)
    max_len = max_len or ENUM_LEN
    i = 0
    for subj in enum_subjects():
        for n in range(1, max_len + 1):
            for ops in itertools.product(alphabet, repeat=n):
                if i % nshards == shard:
                    yield {"subject": subj, "actors": 1, "ops": [list(o) for o in ops]}
                i += 1


def enum_definition(extra=""):
    return ("all operation histories of length 1..%d over the alphabet %s%s on %d subjects (7 store classes / edges x capacity 1,2; "
            "buffer FIFO and LIFO), one actor; 'adv 0' = advance 1 time unit, put delay index 0 = 0 and 2 = 1" % (
                ENUM_LEN, ENUM_ALPHABET, extra, len(enum_subjects())))


def is_enumerated(case, alphabet=None, max_len=None):
    ops = case.get("ops", [])
    if case.get("actors", 1) != 1 or len(ops) > (max_len or ENUM_LEN) or not ops:
        return False
    al = alphabet or ENUM_ALPHABET
    return all(o in al for o in ops) and case.get("subject") in enum_subjects()
