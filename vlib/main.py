"""./check <PID> [--tier quick|thorough] [--replay FILE] [--examples N]"""
import argparse
import json
import os
import sys
import time
import traceback

from . import common
from .common import out


def replay_one(mod, prop, findings, path, d, verbose=False):
    """Run one replay file.  Returns (unknown_violations, known_hits, all_violations)."""
    with common.silence():
        res = mod.run_case(d["case"])
    unknown, known = [], []
    for sig, msg in res.violations:
        k = common.match_known(findings, prop, sig)
        if k is None:
            unknown.append((sig, msg))
        else:
            known.append((k, sig, msg))
    if verbose:
        for line in res.info.get("trace", []):
            out("  " + line)
        for sig, msg in res.violations:
            out("  violation signature=%s : %s" % (json.dumps(list(sig)), msg))
        if res.aborted:
            out("  aborted: %s" % res.aborted)
        if not res.violations:
            out("  no violation")
    return unknown, known, res


def main(argv=None):
    ap = argparse.ArgumentParser()
    ap.add_argument("prop")
    ap.add_argument("--tier", default=os.environ.get("VERIF_TIER", "quick"))
    ap.add_argument("--replay")
    ap.add_argument("--examples", type=int)
    ap.add_argument("--no-shrink", action="store_true")
    args = ap.parse_args(argv)
    prop = args.prop.upper()
    tier = args.tier if args.tier in ("quick", "thorough") else "quick"
    try:
        seed = int(os.environ.get("VERIF_SEED", "1"))
    except ValueError:
        seed = 1
    t0 = time.time()
    sys.stdout = common._NULL   # the library prints from generator finalisers too; we only use out()
    try:
        import simpy
        if not hasattr(simpy.Environment(), "_active_proc"):
            raise common.HarnessError("simpy.Environment lacks _active_proc")
        mod = common.prop_module(prop)
        findings = common.load_findings()
        import factorysimpy
        src = os.path.dirname(os.path.dirname(os.path.abspath(factorysimpy.__file__)))
        want = os.path.abspath(os.environ.get("VERIF_REPO_SRC", "/repo/src"))
        if os.path.abspath(src) != want:
            raise common.HarnessError("factorysimpy imported from %s, expected %s" % (src, want))

        # ---------------- replay mode
        if args.replay:
            with open(args.replay) as f:
                d = json.load(f)
            unknown, known, res = replay_one(mod, prop, findings, args.replay, d, verbose=True)
            for k, sig, msg in known:
                out("KNOWN-FINDING: property=%s %s %s" % (prop, json.dumps(k["signature"]), k["what"]))
            if unknown:
                out("VIOLATION property=%s replay=%s" % (prop, args.replay))
                return 1
            return 0

        if os.path.isdir(common.FOUND_DIR):
            for fn in os.listdir(common.FOUND_DIR):
                if fn.startswith(prop + "-"):
                    os.remove(os.path.join(common.FOUND_DIR, fn))
        violations = []      # (sig, msg, replay path)
        known_hits = {}      # finding id -> (finding, count)

        # ---------------- regression tier: committed replays first
        n_replays = 0
        for path, d in common.committed_replays(prop):
            n_replays += 1
            unknown, known, _ = replay_one(mod, prop, findings, path, d)
            for sig, msg in unknown:
                violations.append((sig, msg, path))
            for k, sig, msg in known:
                kid = json.dumps(k["signature"])
                known_hits[kid] = (k, known_hits.get(kid, (k, 0))[1] + 1)

        # ---------------- generated search
        n_total = args.examples or mod.examples(tier)
        shards = common.NCPU
        per = max(1, n_total // shards)
        jobs = [(prop, tier, seed, i, per) for i in range(shards)]
        acc = common.Accumulator()
        for status, payload in common.run_pool(common._hyp_shard, jobs):
            if status != "ok":
                raise common.HarnessError("shard failed:\n" + payload)
            acc.merge(payload)
        exhaustive = False
        enum_def = None
        if hasattr(mod, "enumerate_cases") and (tier == "thorough" or getattr(mod, "ENUM_IN_QUICK", False)):
            ejobs = [(prop, tier, i, shards) for i in range(shards)]
            for status, payload in common.run_pool(common._enum_shard, ejobs):
                if status != "ok":
                    raise common.HarnessError("enum shard failed:\n" + payload)
                acc.merge(payload)
            exhaustive = True
            enum_def = mod.enum_definition(tier)

        excluded_known = {}
        for sig, b in sorted(acc.buckets.items(), key=lambda kv: json.dumps(list(kv[0]))):
            k = common.match_known(findings, prop, sig)
            if k is not None:
                kid = json.dumps(k["signature"])
                known_hits[kid] = (k, known_hits.get(kid, (k, 0))[1] + b["count"])
                excluded_known[json.dumps(list(sig))] = b["count"]
                continue
            case = b["case"]
            if not args.no_shrink:
                case = common.shrink(mod, case, sig, 20 if tier == "quick" else 120)
            with common.silence():
                r2 = mod.run_case(case)
            msg = next((m for s, m in r2.violations if s == sig), b["message"])
            path = common.write_replay(prop, mod.ENGINE, case, sig, msg)
            violations.append((sig, msg, path))

        for kid, (k, cnt) in sorted(known_hits.items()):
            out("KNOWN-FINDING: property=%s signature=%s cases=%d %s" % (prop, kid, cnt, k["what"]))

        samples = acc.samples_nt[:3] + acc.samples_tr[:1]
        cov = {
            "evaluations": acc.evaluations,
            "distinct_nontrivial": len(acc.nontrivial) + acc.enum_nontrivial,
            "distinct_cases": len(acc.distinct),
            "rule": mod.RULE,
            "samples": samples,
            "classes": dict(sorted(acc.classes.items())),
            "aborted": dict(sorted(acc.aborted.items())),
            "excluded_known": excluded_known,
            "committed_replays_run": n_replays,
            "exhaustive": False,
            "shards": shards,
            "hypothesis_seed_rule": "seed(VERIF_SEED*1000+shard)",
        }
        if exhaustive:
            cov["enumerated_subspace"] = {"exhaustive": True, "definition": enum_def, "cases": acc.enum_cases,
                                          "nontrivial": acc.enum_nontrivial,
                                          "note": "generated cases that fall inside this sub-space are not counted again in distinct_nontrivial"}
        for k, v in acc.extra.items():
            cov.setdefault(k, v)
        ev = {
            "property_id": prop, "tier": tier, "seed": seed, "level": "exploration",
            "coverage": cov,
            "assumptions": list(getattr(mod, "ASSUMPTIONS", [])),
            "wall_s": round(time.time() - t0, 2),
            "violations": len(violations),
        }
        common.write_evidence(prop, ev)
        frac = ((len(acc.nontrivial) + acc.enum_nontrivial) / max(1, acc.evaluations))
        out("%s tier=%s seed=%d cases=%d distinct=%d nontrivial=%d (%.0f%%) known_excluded=%d wall=%.1fs" % (
            prop, tier, seed, acc.evaluations, len(acc.distinct) + acc.enum_cases, len(acc.nontrivial) + acc.enum_nontrivial, 100 * frac,
            sum(excluded_known.values()), time.time() - t0))
        if os.environ.get("VERIF_VERBOSE"):
            out("classes: " + json.dumps(cov["classes"]))
            out("aborted: " + json.dumps(cov["aborted"]))
        if violations:
            for sig, msg, path in violations:
                out("  signature=%s %s" % (json.dumps(list(sig)), msg))
                out("VIOLATION property=%s replay=%s" % (prop, path))
            return 1
        return 0
    except common.HarnessError as e:
        out("HARNESS-ERROR %s: %s" % (prop, e))
        return 2
    except Exception:
        out("HARNESS-ERROR %s:\n%s" % (prop, traceback.format_exc()))
        return 2


if __name__ == "__main__":
    sys.exit(main())
