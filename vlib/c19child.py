"""Child interpreter for C19: executes a batch of factory specs and prints one digest per spec.
usage: python -m vlib.c19child <specs.json> <perturb:0|1>"""
import json
import sys


def main():
    path, perturb = sys.argv[1], int(sys.argv[2])
    keep = []
    if perturb:
        # shift the heap: allocate and keep a few thousand objects of assorted sizes so that id() values differ
        for i in range(5000):
            keep.append(bytearray(17 + (i * 7919) % 513))
            keep.append([None] * ((i * 31) % 23))
            keep.append({"k%d" % i: i})
    from vlib import common
    sys.stdout = common._NULL
    from vlib.props import c19
    specs = json.load(open(path))
    out = []
    for spec in specs:
        try:
            out.append(c19.digest_of(spec))
        except Exception as e:   # noqa
            out.append("EXC:%s:%s" % (type(e).__name__, str(e)[:100]))
    sys.__stdout__.write(json.dumps(out))
    sys.__stdout__.flush()


if __name__ == "__main__":
    main()
