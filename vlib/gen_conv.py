"""Hypothesis strategies for Engine-K cases (conveyor + producer script + consumer script)."""
from hypothesis import strategies as st

GEOMS = [(4, 1, 1), (3, 1, 1), (2, 1, 2), (4, 2, 1), (5, 1, 0.5), (2, 0.5, 1), (3, 0.5, 2), (6, 2, 3), (5, 0.5, 5.76), (1, 0.1, 1),
         (1.5, 0.5, 1), (2.5, 1, 1), (3, 0.7, 1), (4, 1.5, 2)]
NICE = 10         # the first NICE geometries have L integer and a multiple of il (the last of them has a non-dyadic pitch of 0.1)
PW = [0, 0, 0.3, 0.5, 1, 1.3, 2, 2 ** 0.5, 1.0 / 3.0, 3, 0.7, 5]
CW = [0, 0, 0, 0.5, 1, 2, 5, 8, 1.3, 0.3, 12]


HOLD = [0, 0, 0, 0, 0.3, 1, 2, 0.5]


def build(t, nice_only=False, kinds=("continuous", "slotted"), holds=False, cholds=False, ccancels=False):
    kind_i, g_i, cap, d_i, acc, n_items, pmode, pw, cmode, cw = t
    kind = kinds[kind_i % len(kinds)]
    if kind == "continuous":
        L, il, v = GEOMS[g_i % (NICE if nice_only else len(GEOMS))]
        conv = {"kind": "continuous", "L": L, "il": il, "v": v, "acc": acc}
    else:
        conv = {"kind": "slotted", "capacity": 1 + cap % 6, "delay": [1, 0.5, 2, 0.7][d_i % 4], "acc": acc, "il": 1}
    n = 2 + n_items % 9
    pm = pmode % 4
    if pm == 0:      # regular
        prod = [PW[pw[0] % len(PW)]] * n
    elif pm == 1:    # bursts of zeros
        prod = [0 if (i % 3) else PW[pw[i % len(pw)] % len(PW)] for i in range(n)]
    else:            # irregular
        prod = [PW[pw[i % len(pw)] % len(PW)] for i in range(n)]
    if pm >= 2 and pw[0] % 3 == 0 and n >= 2:
        # an exact tie: one admission request falls into the very instant the first item reaches the exit
        travel = (conv["L"] / conv["v"]) if kind == "continuous" else conv["capacity"] * conv["delay"]
        j = 1 + pw[1] % min(3, n - 1)
        rest = travel - sum(prod[1:j])
        if rest > 0:
            prod = list(prod)
            prod[j] = rest
    cm = cmode % 5
    if cm == 0:      # always waiting: free flow
        cons = [0] * n
    elif cm == 1:    # late consumer: one long stall then free
        cons = [CW[4 + cw[0] % 4]] + [0] * (n - 1)
    elif cm == 2:    # alternating
        cons = [CW[cw[i % len(cw)] % len(CW)] if i % 2 else 0 for i in range(n)]
    else:
        cons = [CW[cw[i % len(cw)] % len(CW)] for i in range(n)]
    case = {"conv": conv, "producer": prod, "consumer": cons, "T": 400.0}
    if g_i >= 56:
        # a large but legal clock value: everything happens 1e7 time units after the start (float spacing there is ~2e-9)
        case["t0"] = 1e7
    if holds and (pmode // 4) % 2 == 1:
        # loading time: the producer holds its granted admission for a while before it puts the item
        case["hold"] = [HOLD[(pw[i % len(pw)] + cw[i % len(cw)]) % len(HOLD)] for i in range(n)]
    if cholds and (cmode // 5) % 2 == 1 and n_items % 4 == 0:
        # collection time: the destination is handed the head (granted retrieval) and takes it off the belt only later
        case["chold"] = [HOLD[(pw[(i + 1) % len(pw)] + 3 * cw[i % len(cw)]) % len(HOLD)] for i in range(n)]
    if (cholds or ccancels) and (cmode // 5) % 2 == 1 and n_items % 4 in (2, 3):
        # a fan-out source of items that picked another edge: some granted admissions are withdrawn 0-2 kernel hops after
        # the grant, nothing enters; an extra request follows so that the number of items stays the same
        pf = [1 + (pw[i % len(pw)] + i) % 3 if (pw[i % len(pw)] + cw[(i + 1) % len(cw)]) % 3 == 0 else 0 for i in range(n)]
        prod2, pf2 = [], []
        for i in range(n):
            if pf[i]:
                prod2.append(prod[i])
                pf2.append(pf[i])
                prod2.append(PW[(pw[i % len(pw)] + 2) % len(PW)])
                pf2.append(0)
            else:
                prod2.append(prod[i])
                pf2.append(0)
        case["producer"] = prod2
        case["pcancel"] = pf2
        if (pw[0] + cw[0]) % 2 == 0:
            # a second source process shares the belt: its requests queue with the first one's in request order
            # (every wait carries its own off-grid offset, so that a request of this process never falls into the same instant as
            # one of the first process: the order of two same-instant requests is the kernel's, not the conveyor's)
            case["producer2"] = [PW[(pw[(i + 1) % len(pw)] + cw[i % len(cw)]) % len(PW)] + 0.0137 * (i + 1) + (0.25 if i == 0 else 0)
                                 for i in range(1 + n % 3)]
        if case.get("hold"):
            h2, k = [], 0
            for f_ in pf2:
                h2.append(0 if f_ else case["hold"][min(k, len(case["hold"]) - 1)])
                k += 0 if f_ else 1
            case["hold"] = h2
    if (cholds or ccancels) and (cmode // 5) % 2 == 1 and n_items % 4 in (1, 2):
        # a fan-in destination that picked another edge: some granted retrievals are withdrawn in the instant of the grant
        # (extra consumer requests, so that every item can still be taken)
        # value = 1 + number of zero-delay kernel hops between the grant and the withdrawal (a node resumes through an any_of)
        flags = [1 + (cw[i % len(cw)] + i) % 3 if (cw[i % len(cw)] + pw[(i + 2) % len(pw)]) % 3 == 0 else 0 for i in range(n)]
        cons2, fl2 = [], []
        for i in range(n):
            if flags[i]:
                cons2.append(cons[i])
                fl2.append(flags[i])
                cons2.append(CW[(cw[i % len(cw)] + 1) % len(CW)])
                fl2.append(0)
            else:
                cons2.append(cons[i])
                fl2.append(0)
        case["consumer"] = cons2
        case["ccancel"] = fl2
    return case


def cases(nice_only=False, kinds=("continuous", "slotted"), holds=False, cholds=False, ccancels=False):
    return st.tuples(st.integers(0, 1), st.integers(0, 63), st.integers(0, 11), st.integers(0, 7), st.integers(0, 1),
                     st.integers(0, 17), st.integers(0, 7), st.lists(st.integers(0, 23), min_size=4, max_size=10),
                     st.integers(0, 9), st.lists(st.integers(0, 21), min_size=4, max_size=10)).map(
        lambda t: build(t, nice_only, kinds, holds, cholds, ccancels))


def shrink_candidates(case):
    p, c = case["producer"], case["consumer"]
    n = len(p)
    if n > 1:
        for i in range(n):
            d2 = dict(case, producer=p[:i] + p[i + 1:], consumer=c[:len(c) - 1] if len(c) >= n else c)
            if case.get("hold"):
                d2["hold"] = case["hold"][:i] + case["hold"][i + 1:]
            yield d2
        if case.get("chold") and any(case["chold"]):
            yield dict(case, chold=[0] * len(case["chold"]))
            for i, w in enumerate(case["chold"]):
                if w:
                    yield dict(case, chold=case["chold"][:i] + [0] + case["chold"][i + 1:])
        d2 = dict(case, producer=p[:-1], consumer=c[:-1] if len(c) >= n else c)
        if case.get("hold"):
            d2["hold"] = case["hold"][:-1]
        yield d2
    for i, w in enumerate(p):
        if w not in (0, 1):
            yield dict(case, producer=p[:i] + [1] + p[i + 1:])
            yield dict(case, producer=p[:i] + [0] + p[i + 1:])
    for i, w in enumerate(c):
        if w != 0:
            yield dict(case, consumer=c[:i] + [0] + c[i + 1:])
            if w != 1:
                yield dict(case, consumer=c[:i] + [1] + c[i + 1:])
    if case.get("hold"):
        c = dict(case)
        c.pop("hold")
        yield c
        for i, w in enumerate(case["hold"]):
            if w != 0:
                yield dict(case, hold=case["hold"][:i] + [0] + case["hold"][i + 1:])
    conv = case["conv"]
    if conv["kind"] == "continuous" and (conv["L"], conv["il"], conv["v"]) != (3, 1, 1):
        yield dict(case, conv=dict(conv, L=3, il=1, v=1))
    if conv["kind"] == "slotted":
        if conv["capacity"] > 1:
            yield dict(case, conv=dict(conv, capacity=conv["capacity"] - 1))
        if conv["delay"] != 1:
            yield dict(case, conv=dict(conv, delay=1))
