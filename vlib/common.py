"""Shared infrastructure: silencing, tolerances, case hashing, sharded Hypothesis driver,
known-findings matcher, delta-debugging shrinker, evidence writer."""
import contextlib
import hashlib
import importlib
import json
import multiprocessing
import os
import sys
import time
import traceback

VERIF = os.path.dirname(os.path.dirname(os.path.abspath(__file__)))
EVIDENCE_DIR = os.environ.get("VERIF_EVIDENCE_DIR") or os.path.join(VERIF, "evidence")
REPLAY_DIR = os.path.join(VERIF, "replays")
FOUND_DIR = os.environ.get("VERIF_FOUND_DIR") or os.path.join(VERIF, "replays", "found")
FINDINGS_FILE = os.path.join(VERIF, "known_findings.json")
NCPU = int(os.environ.get("VERIF_SHARDS", "16"))


# ---------------------------------------------------------------------------------------------
# tolerance (DESIGN R3)
def close(a, b, scale=1.0):
    return abs(a - b) <= 1e-9 * max(1.0, abs(a), abs(b), abs(scale))


def leq(a, b):
    """a <= b up to tolerance"""
    return a <= b or close(a, b)


# ---------------------------------------------------------------------------------------------
class _Null:
    def write(self, s):
        return len(s)

    def flush(self):
        pass

    def isatty(self):
        return False


_NULL = _Null()


@contextlib.contextmanager
def silence():
    """The library prints on almost every call."""
    old = sys.stdout
    sys.stdout = _NULL
    try:
        yield
    finally:
        sys.stdout = old


def out(*a):
    sys.__stdout__.write(" ".join(str(x) for x in a) + "\n")
    sys.__stdout__.flush()


# ---------------------------------------------------------------------------------------------
def canon(case):
    return json.dumps(case, sort_keys=True, separators=(",", ":"))


def case_hash(case):
    return int.from_bytes(hashlib.blake2b(canon(case).encode(), digest_size=8).digest(), "big")


class HarnessError(Exception):
    """A fault of the verification machinery itself (exit 2, never a verdict)."""


class Result:
    """Outcome of one executed case.
    violations : list of (signature tuple, message)
    nontrivial : bool (property's stated rule)
    classes    : iterable of labels for the distribution counters
    aborted    : None or a label: the case stopped early for a reason that is not this
                 property's business (e.g. a defect owned by another property corrupted state)"""
    __slots__ = ("violations", "nontrivial", "classes", "aborted", "info")

    def __init__(self):
        self.violations = []
        self.nontrivial = False
        self.classes = []
        self.aborted = None
        self.info = {}

    def violate(self, signature, message):
        self.violations.append((tuple(signature), message))


# ---------------------------------------------------------------------------------------------
# known findings
def load_findings():
    if not os.path.exists(FINDINGS_FILE):
        return []
    with open(FINDINGS_FILE) as f:
        data = json.load(f)
    return data.get("findings", [])


def sig_match(pattern, sig):
    if len(pattern) != len(sig):
        return False
    for p, s in zip(pattern, sig):
        if p == "*":
            continue
        if isinstance(p, str) and p.endswith("*") and isinstance(s, str) and s.startswith(p[:-1]):
            continue
        if isinstance(p, str) and "|" in p and str(s) in p.split("|"):
            continue
        if p != s and str(p) != str(s):
            return False
    return True


def match_known(findings, prop, sig):
    for f in findings:
        if f.get("property") == prop and f.get("status") == "known" and sig_match(f["signature"], list(sig)):
            return f
    return None


# ---------------------------------------------------------------------------------------------
class Accumulator:
    MAX_SAMPLES = 4

    def __init__(self):
        self.evaluations = 0
        self.nontrivial = set()
        self.distinct = set()
        self.classes = {}
        self.aborted = {}
        self.buckets = {}  # sig -> dict(count, case, message)
        self.samples_nt = []
        self.samples_tr = []
        self.extra = {}
        self.enum_cases = 0
        self.enum_nontrivial = 0

    def add(self, case, res, enumerated=False, skip_nt=False):
        """enumerated=True: the case comes from an exhaustive enumeration (distinct by construction; counted, not
        hashed).  skip_nt=True: a generated case that the enumeration of this run also covers (not counted twice)."""
        self.evaluations += 1
        if enumerated:
            self.enum_cases += 1
            if res.nontrivial:
                self.enum_nontrivial += 1
                if len(self.samples_nt) < self.MAX_SAMPLES and self.enum_nontrivial % 997 == 1:
                    self.samples_nt.append(case)
        else:
            h = case_hash(case)
            self.distinct.add(h)
            if res.nontrivial and not skip_nt:
                self.nontrivial.add(h)
                if len(self.samples_nt) < self.MAX_SAMPLES:
                    self.samples_nt.append(case)
            elif len(self.samples_tr) < 1:
                self.samples_tr.append(case)
        for c in res.classes:
            self.classes[c] = self.classes.get(c, 0) + 1
        if res.aborted:
            self.aborted[res.aborted] = self.aborted.get(res.aborted, 0) + 1
        seen = set()
        for sig, msg in res.violations:
            if sig in seen:
                continue
            seen.add(sig)
            b = self.buckets.get(sig)
            size = len(canon(case))
            if b is None:
                self.buckets[sig] = {"count": 1, "case": case, "message": msg, "size": size}
            else:
                b["count"] += 1
                if size < b["size"]:
                    b.update(case=case, message=msg, size=size)

    def merge(self, other):
        self.evaluations += other.evaluations
        self.enum_cases += other.enum_cases
        self.enum_nontrivial += other.enum_nontrivial
        self.nontrivial |= other.nontrivial
        self.distinct |= other.distinct
        for k, v in other.classes.items():
            self.classes[k] = self.classes.get(k, 0) + v
        for k, v in other.aborted.items():
            self.aborted[k] = self.aborted.get(k, 0) + v
        for sig, b in other.buckets.items():
            mine = self.buckets.get(sig)
            if mine is None:
                self.buckets[sig] = dict(b)
            else:
                mine["count"] += b["count"]
                if b["size"] < mine["size"]:
                    mine.update(case=b["case"], message=b["message"], size=b["size"])
        for s in other.samples_nt:
            if len(self.samples_nt) < self.MAX_SAMPLES:
                self.samples_nt.append(s)
        for s in other.samples_tr:
            if len(self.samples_tr) < 1:
                self.samples_tr.append(s)
        for k, v in other.extra.items():
            if isinstance(v, (int, float)):
                self.extra[k] = self.extra.get(k, 0) + v
            else:
                self.extra[k] = v


def prop_module(prop):
    return importlib.import_module("vlib.props.%s" % prop.lower())


def _hyp_shard(args):
    prop, tier, seed, shard, n = args
    try:
        import hypothesis
        from hypothesis import given, settings, HealthCheck, Phase
        mod = prop_module(prop)
        acc = Accumulator()
        strat = mod.strategy(tier)

        keep = [] if getattr(mod, "KEEP_CASES", False) else None
        covered = getattr(mod, "is_enumerated", None) if (tier == "thorough" and hasattr(mod, "enumerate_cases")) else None

        @hypothesis.seed(seed * 1000 + shard)
        @settings(max_examples=n, database=None, deadline=None, derandomize=False,
                  phases=[Phase.generate], suppress_health_check=list(HealthCheck),
                  report_multiple_bugs=False, print_blob=False)
        @given(strat)
        def prop_fn(case):
            with silence():
                res = mod.run_case(case)
            acc.add(case, res, skip_nt=bool(covered and covered(case)))
            if keep is not None:
                keep.append((case, res))

        prop_fn()
        if keep is not None:
            mod.finalize_shard(keep, acc)
        return ("ok", acc)
    except BaseException:
        return ("err", traceback.format_exc())


def _enum_shard(args):
    prop, tier, shard, nshards = args
    try:
        mod = prop_module(prop)
        acc = Accumulator()
        n = 0
        for case in mod.enumerate_cases(tier, shard, nshards):
            with silence():
                res = mod.run_case(case)
            acc.add(case, res, enumerated=True)
            n += 1
        return ("ok", acc)
    except BaseException:
        return ("err", traceback.format_exc())


def run_pool(fn, jobs):
    if len(jobs) == 1 or NCPU == 1:
        return [fn(j) for j in jobs]
    ctx = multiprocessing.get_context("fork")
    with ctx.Pool(min(NCPU, len(jobs))) as pool:
        return pool.map(fn, jobs, chunksize=1)


# ---------------------------------------------------------------------------------------------
# delta debugging on JSON cases
def _candidates(case, mod):
    """Yield structurally smaller variants of a case.  Property modules may supply
    `shrink_candidates(case)`; the default handles the common shapes: a dict that has list
    members (drop chunks / single elements) and numeric members (towards small)."""
    if hasattr(mod, "shrink_candidates"):
        yield from mod.shrink_candidates(case)
        return
    yield from generic_candidates(case)


def generic_candidates(case, path=()):
    if isinstance(case, dict):
        for k in sorted(case):
            v = case[k]
            for sub in generic_candidates(v, path + (k,)):
                c = dict(case)
                c[k] = sub
                yield c
    elif isinstance(case, list):
        n = len(case)
        chunk = n // 2
        while chunk >= 1:
            i = 0
            while i < n:
                yield case[:i] + case[i + chunk:]
                i += chunk
            chunk //= 2
        for i, v in enumerate(case):
            if isinstance(v, (dict, list)):
                for sub in generic_candidates(v, path + (i,)):
                    yield case[:i] + [sub] + case[i + 1:]
    elif isinstance(case, bool):
        return
    elif isinstance(case, int):
        if case > 0:
            yield 0
            if case > 1:
                yield case - 1
    elif isinstance(case, float):
        if case not in (0.0, 1.0):
            yield 1.0
            yield float(int(case))


def shrink(mod, case, sig, budget_s):
    """Greedy delta debugging: accept a candidate when it still shows a violation with the
    same signature.  Time-capped; a timeout just returns the best case so far."""
    t0 = time.time()
    best = case

    def fails(c):
        try:
            with silence():
                r = mod.run_case(c)
        except HarnessError:
            return False
        except Exception:
            return False
        return any(s == sig for s, _ in r.violations)

    improved = True
    while improved and time.time() - t0 < budget_s:
        improved = False
        for cand in _candidates(best, mod):
            if time.time() - t0 > budget_s:
                break
            cc, cb = canon(cand), canon(best)
            if len(cc) > len(cb) or (len(cc) == len(cb) and cc >= cb):
                continue
            if fails(cand):
                best = cand
                improved = True
                break
    return best


# ---------------------------------------------------------------------------------------------
def write_replay(prop, engine, case, sig, message, directory=FOUND_DIR, name=None):
    os.makedirs(directory, exist_ok=True)
    if name is None:
        name = "%s-%s.json" % (prop, hashlib.sha1(canon(list(sig)).encode()).hexdigest()[:10])
    path = os.path.join(directory, name)
    with open(path, "w") as f:
        json.dump({"property": prop, "engine": engine, "signature": list(sig), "note": message,
                   "case": case}, f, indent=1, sort_keys=True)
        f.write("\n")
    return path


def committed_replays(prop):
    res = []
    if not os.path.isdir(REPLAY_DIR):
        return res
    for fn in sorted(os.listdir(REPLAY_DIR)):
        if not fn.endswith(".json"):
            continue
        p = os.path.join(REPLAY_DIR, fn)
        try:
            with open(p) as f:
                d = json.load(f)
        except Exception:
            continue
        props = d.get("properties") or [d.get("property")]
        if prop in props:
            res.append((p, d))
    return res


def validate_evidence(ev):
    schema_path = "/root/.vp/EVIDENCE.schema.json"
    local = os.path.join(VERIF, "tools", "EVIDENCE.schema.json")
    for sp in (local, schema_path):
        if os.path.exists(sp):
            try:
                import jsonschema
            except Exception:
                break
            with open(sp) as f:
                schema = json.load(f)
            jsonschema.validate(ev, schema)
            return "jsonschema"
    # minimal built-in validation
    for k in ("property_id", "tier", "seed", "level", "coverage", "wall_s"):
        if k not in ev:
            raise HarnessError("evidence lacks %s" % k)
    cov = ev["coverage"]
    if not (isinstance(cov.get("evaluations"), int) and cov["evaluations"] >= 1):
        raise HarnessError("evidence: evaluations")
    if not (isinstance(cov.get("distinct_nontrivial"), int) and cov["distinct_nontrivial"] >= 2):
        raise HarnessError("evidence: distinct_nontrivial < 2")
    if not (isinstance(cov.get("samples"), list) and cov["samples"]):
        raise HarnessError("evidence: samples")
    if not isinstance(cov.get("rule"), str):
        raise HarnessError("evidence: rule")
    return "builtin"


def write_evidence(prop, ev):
    os.makedirs(EVIDENCE_DIR, exist_ok=True)
    how = validate_evidence(ev)
    ev["coverage"]["evidence_validated_by"] = how
    path = os.path.join(EVIDENCE_DIR, "%s.json" % prop)
    tmp = path + ".tmp"
    with open(tmp, "w") as f:
        json.dump(ev, f, indent=1, sort_keys=True, default=str)
        f.write("\n")
    os.replace(tmp, path)
    return path
