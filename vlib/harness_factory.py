"""Engine F: build a factory from a JSON spec, observe every store from outside (ledger), drive the
kernel event by event.  No source hooks: observation wraps bound methods of store *instances*."""
import random

import simpy

from .common import HarnessError

BIG = 1.0e9
MAX_EVENTS_PER_INSTANT = 20000
MAX_LEDGER = 60000


class ValueSource:
    """Harness-supplied delay / selection source: cycles through `values`, logs every consultation."""

    def __init__(self, run, owner, what, kind, values, finite_after=None):
        self.run = run
        self.owner = owner
        self.what = what
        self.kind = kind
        self.values = list(values) or [1]
        self.finite_after = finite_after
        self.n = 0
        self.log = []    # (time, kernel index, value)

    def next_value(self):
        if self.finite_after is not None and self.n >= self.finite_after:
            v = BIG
        else:
            v = self.values[self.n % len(self.values)]
        self.n += 1
        self.log.append((self.run.env.now, self.run.k, v))
        return v

    def as_param(self):
        if self.kind == "const":
            return self.values[0]
        if self.kind == "callable":
            return lambda: self.next_value()     # late binding: oracles may wrap next_value

        def gen():
            while True:
                yield self.next_value()
        return gen()


class Entry:
    __slots__ = ("t", "k", "op", "edge", "tok", "item", "exc", "proc", "was_triggered", "ret")

    def __init__(self, t, k, op, edge, tok, item, exc, proc, was_triggered=None, ret=None):
        self.t = t
        self.k = k
        self.op = op
        self.edge = edge
        self.tok = tok
        self.item = item
        self.exc = exc
        self.proc = proc
        self.was_triggered = was_triggered
        self.ret = ret

    def __repr__(self):
        return "<%s t=%s %s %s %s>" % (self.op, self.t, self.edge, getattr(self.item, "id", ""), "EXC" if self.exc else "")


class TokInfo:
    __slots__ = ("ev", "side", "edge", "t_issue", "k_issue", "t_grant", "k_grant", "state", "proc", "node")

    def __init__(self, ev, side, edge, t, k, proc, node):
        self.ev = ev
        self.side = side
        self.edge = edge
        self.t_issue = t
        self.k_issue = k
        self.t_grant = None
        self.k_grant = None
        self.state = "pending"   # pending granted used cancelled
        self.proc = proc
        self.node = node


class FOracle:
    def start(self, f): pass
    def on_entry(self, f, e): pass
    def after_kernel_event(self, f): pass
    def end_of_instant(self, f): pass
    def on_exception(self, f, exc): pass
    def on_livelock(self, f): pass
    def finish(self, f): pass


def _unwrap(item):
    if isinstance(item, tuple) and len(item) == 2:
        return item[0]
    return item


class FactoryRun:
    def __init__(self, spec, res, oracles, collect_ledger=True):
        self.spec = spec
        self.res = res
        self.oracles = oracles
        self.env = simpy.Environment()
        self.k = 0
        self.nodes = {}
        self.edges = {}
        self.node_spec = {n["id"]: n for n in spec["nodes"]}
        self.edge_spec = {e["id"]: e for e in spec["edges"]}
        self.sources = {}         # (owner id, what) -> ValueSource
        self.ledger = []
        self.toks = {}            # id(ev) -> TokInfo
        self.pending = []
        self.crashed = None
        self.livelock = False
        self.runaway = False
        self.probes = []
        self.build_error = None
        self.T = spec.get("T", 20.0)
        self.events_this_instant = 0
        self.store_edge = {}      # id(store) -> edge id
        self.finalised = False

    # ------------------------------------------------------------------ building
    def vs(self, owner, what, d, finite_after=None):
        s = ValueSource(self, owner, what, d.get("kind", "const"), d.get("values", [1]), finite_after)
        self.sources[(owner, what)] = s
        return s

    def sel_param(self, owner, what, sel):
        if isinstance(sel, str):
            return sel
        if "const" in sel:
            return sel["const"]
        kind = "callable" if "callable" in sel else "generator"
        s = self.vs(owner, what, {"kind": kind, "values": sel[kind]})
        return s.as_param()

    def make_node(self, n):
        env = self.env
        t = n["type"]
        if t == "Source":
            from factorysimpy.nodes.source import Source
            iat = n["iat"]
            src = self.vs(n["id"], "iat", iat, iat.get("finite_after"))
            if iat.get("kind", "const") == "const" and iat.get("finite_after") is not None:
                # finite input needs a stateful source: use a generator that yields the constant
                src.kind = "generator"
            return Source(env, n["id"], item_length=n.get("item_length", 1),
                          flow_item_type=n.get("item", "item"), inter_arrival_time=src.as_param(),
                          blocking=n.get("blocking", True),
                          out_edge_selection=self.sel_param(n["id"], "out_sel", n.get("out_sel", "FIRST_AVAILABLE")))
        if t == "Machine":
            from factorysimpy.nodes.machine import Machine
            d = self.vs(n["id"], "delay", n["delay"])
            return Machine(env, n["id"], node_setup_time=n.get("setup", 0), work_capacity=n.get("work_capacity", 1),
                           processing_delay=d.as_param(), blocking=n.get("blocking", True),
                           in_edge_selection=self.sel_param(n["id"], "in_sel", n.get("in_sel", "FIRST_AVAILABLE")),
                           out_edge_selection=self.sel_param(n["id"], "out_sel", n.get("out_sel", "FIRST_AVAILABLE")))
        if t == "Splitter":
            from factorysimpy.nodes.splitter import Splitter
            d = self.vs(n["id"], "delay", n["delay"])
            kw = {"split_quantity": n["split_quantity"]} if "split_quantity" in n else {}
            return Splitter(env, n["id"], node_setup_time=n.get("setup", 0), processing_delay=d.as_param(),
                            blocking=n.get("blocking", True), **kw,
                            in_edge_selection=self.sel_param(n["id"], "in_sel", n.get("in_sel", "FIRST_AVAILABLE")),
                            out_edge_selection=self.sel_param(n["id"], "out_sel", n.get("out_sel", "FIRST_AVAILABLE")))
        if t == "Combiner":
            from factorysimpy.nodes.combiner import Combiner
            d = self.vs(n["id"], "delay", n["delay"])
            return Combiner(env, n["id"], node_setup_time=n.get("setup", 0),
                            target_quantity_of_each_item=list(n.get("recipe", [1])), processing_delay=d.as_param(),
                            blocking=n.get("blocking", True),
                            out_edge_selection=self.sel_param(n["id"], "out_sel", n.get("out_sel", "FIRST_AVAILABLE")))
        if t == "Sink":
            from factorysimpy.nodes.sink import Sink
            return Sink(env, n["id"], node_setup_time=n.get("setup", 0))
        if t == "Router":
            return self.make_router(n)
        raise HarnessError("node type %r" % t)

    def make_router(self, n):
        """harness-owned node closing a circular line: injects a fixed population of pallets and items, afterwards sends
        every pallet it receives back to its first out-edge and every item to its second one (after an optional wait).
        It uses the documented edge API only (reserve_put / put / reserve_get / get) like any library node."""
        from factorysimpy.nodes.node import Node
        from factorysimpy.helper.item import Item
        from factorysimpy.helper.pallet import Pallet
        env = self.env

        class Router(Node):
            def __init__(self_, env, id):
                super().__init__(env, id)
                self_.state = None
                self_.stats = {"num_item_discarded": 0}

            def send(self_, edge, obj):
                ev = edge.reserve_put()
                yield ev
                obj.timestamp_node_exit = env.now
                edge.put(ev, obj)

            def feed(self_):
                for k in range(n.get("pallets", 1)):
                    yield from self_.send(self_.out_edges[0], Pallet("LP%d" % k))
                    if n.get("feed_gap"):
                        yield env.timeout(n["feed_gap"])
                for k in range(n.get("items", 2)):
                    it = Item("LX%d" % k)
                    it.length = 1
                    yield from self_.send(self_.out_edges[1], it)
                    if n.get("feed_gap"):
                        yield env.timeout(n["feed_gap"])

            def route(self_, edge, waits):
                i = 0
                while True:
                    ev = edge.reserve_get()
                    yield ev
                    obj = edge.get(ev)
                    w = waits[i % len(waits)] if waits else 0
                    i += 1
                    if w:
                        yield env.timeout(w)
                    dst = self_.out_edges[0] if getattr(obj, "flow_item_type", "") == "Pallet" else self_.out_edges[1]
                    yield from self_.send(dst, obj)

            def start_processes(self_):
                env.process(self_.feed())
                for e in (self_.in_edges or []):
                    env.process(self_.route(e, n.get("waits") or [0]))
        return Router(env, n["id"])

    def make_edge(self, e):
        env = self.env
        k = e["kind"]
        if k == "Buffer":
            from factorysimpy.edges.buffer import Buffer
            d = self.vs(e["id"], "delay", e.get("delay", {"kind": "const", "values": [0]}))
            kw = {}
            if "mode" in e:
                kw["mode"] = e["mode"]
            return Buffer(env, e["id"], capacity=e.get("capacity", 1), delay=d.as_param(), **kw)
        if k == "Fleet":
            from factorysimpy.edges.fleet import Fleet
            return Fleet(env, e["id"], capacity=e.get("capacity", 1), delay=e.get("delay", 1),
                         transit_delay=e.get("transit", 0))
        if k == "ContinuousConveyor":
            from factorysimpy.edges.continuous_conveyor import ConveyorBelt
            return ConveyorBelt(env, e["id"], conveyor_length=e["L"], speed=e["v"], item_length=e["il"],
                                accumulating=e.get("acc", 1))
        if k == "SlottedConveyor":
            from factorysimpy.edges.slotted_conveyor import ConveyorBelt
            return ConveyorBelt(env, e["id"], capacity=e.get("capacity", 2), delay=e.get("delay", 1),
                                accumulating=e.get("acc", 1))
        raise HarnessError("edge kind %r" % k)

    def edge_store(self, edge):
        return getattr(edge, "inbuiltstore", None) or getattr(edge, "belt", None)

    def wrap_probe(self, eid, edge):
        """record every can_put() a node makes: (t, k, edge, answer, ledger-room at that very moment)"""
        if not hasattr(edge, "can_put"):
            return
        run = self
        orig = edge.can_put

        def can_put():
            room = None
            try:
                cap = run.edge_capacity(eid)
                held = len(run.edge_items(eid))
                g = sum(1 for t in run.toks.values() if t.edge == eid and t.side == "p" and t.state == "granted")
                room = cap - held - g
            except Exception:
                pass
            r = orig()
            # ledger-room of every Buffer/Fleet out-edge of the probing node at this very moment (FIRST_AVAILABLE may
            # drop only if none of them has room, whether it asked them or not)
            rooms_all = {}
            try:
                src = run.edge_spec[eid]["src"]
                for e2 in run.out_edge_ids(src):
                    if run.edge_spec[e2]["kind"] in ("Buffer", "Fleet"):
                        g2 = sum(1 for t in run.toks.values() if t.edge == e2 and t.side == "p" and t.state == "granted")
                        rooms_all[e2] = run.edge_capacity(e2) - len(run.edge_items(e2)) - g2
            except Exception:
                pass
            rec = (run.env.now, run.k, eid, r, room, run.env.active_process, rooms_all)
            run.probes.append(rec)
            for o in run.oracles:
                if hasattr(o, "on_probe"):
                    o.on_probe(run, rec)
            return r
        edge.can_put = can_put

    def wrap_store(self, eid, edge):
        self.wrap_probe(eid, edge)
        store = self.edge_store(edge)
        if store is None:
            return
        self.store_edge[id(store)] = eid
        run = self
        env = self.env
        espec = self.edge_spec[eid]

        def wrap(name, op):
            orig = getattr(store, name)

            def w(*a, **kw):
                proc = env.active_process
                tok = None
                item = None
                was = None
                if op in ("put",):
                    tok, item = a[0], _unwrap(a[1])
                    was = tok.triggered if hasattr(tok, "triggered") else None
                elif op in ("get", "cp", "cg"):
                    tok = a[0]
                    was = tok.triggered if hasattr(tok, "triggered") else None
                try:
                    r = orig(*a, **kw)
                except BaseException as exc:
                    e = Entry(env.now, run.k, op, eid, tok, item, exc, proc, was)
                    run.record(e)
                    raise
                if op in ("rp", "rg"):
                    tok = r
                if op == "get":
                    item = r
                e = Entry(env.now, run.k, op, eid, tok, item, None, proc, was, r)
                run.record(e)
                return r
            setattr(store, name, w)
        wrap("reserve_put", "rp")
        wrap("reserve_get", "rg")
        wrap("put", "put")
        wrap("get", "get")
        wrap("reserve_put_cancel", "cp")
        wrap("reserve_get_cancel", "cg")

    def record(self, e):
        self.ledger.append(e)
        if e.exc is None:
            if e.op in ("rp", "rg"):
                es = self.edge_spec[e.edge]
                node = es["src"] if e.op == "rp" else es["dst"]
                if e.proc is not None and e.proc in getattr(self, "intruder_procs", ()):
                    node = "<user process>"      # a request of a user-written process sharing the edge, not of the node
                ti = TokInfo(e.tok, "p" if e.op == "rp" else "g", e.edge, e.t, e.k, e.proc, node)
                self.toks[id(e.tok)] = ti
                if e.tok.triggered:
                    ti.state = "granted"
                    ti.t_grant = e.t
                    ti.k_grant = e.k
                else:
                    self.pending.append(ti)
            elif e.op in ("put", "get"):
                ti = self.toks.get(id(e.tok))
                if ti is not None:
                    if ti.state == "pending" and e.tok.triggered:
                        ti.t_grant, ti.k_grant = e.t, e.k
                    ti.state = "used"
            elif e.op in ("cp", "cg"):
                ti = self.toks.get(id(e.tok))
                if ti is not None:
                    ti.state = "cancelled"
        for o in self.oracles:
            o.on_entry(self, e)

    def build_via_constructs(self):
        """the helpers of factorysimpy.constructs create and wire the components; the classes handed to them are factories
        that build this harness's instrumented node / edge for the id the helper chose"""
        spec = self.spec
        env = self.env

        def node_f(env, id, **kw):
            if id not in self.node_spec:
                raise HarnessError("construct helper created an unexpected node id %r" % id)
            n = self.make_node(self.node_spec[id])
            self.nodes[id] = n
            return n

        def edge_f(env, id, **kw):
            if id not in self.edge_spec:
                raise HarnessError("construct helper created an unexpected edge id %r" % id)
            e = self.make_edge(self.edge_spec[id])
            self.edges[id] = e
            return e
        if spec["via"] == "chain":
            from factorysimpy.constructs.chain import connect_chain_with_source_sink, connect_nodes_with_buffers
            count = sum(1 for n in spec["nodes"] if n["type"] == "Machine")
            nodes, edges, src, sink = connect_chain_with_source_sink(
                env, count, node_f, edge_f, source_cls=node_f, sink_cls=node_f,
                source_kwargs={"id": "Source"}, sink_kwargs={"id": "Sink"})
            connect_nodes_with_buffers(nodes, edges, src, sink)
        else:
            from factorysimpy.constructs.mesh import connect_mesh_with_source_sink
            connect_mesh_with_source_sink(env, spec["rows"], spec["cols"], node_f, edge_f, source_cls=node_f, sink_cls=node_f)
        missing = [i for i in list(self.node_spec) + list(self.edge_spec) if i not in self.nodes and i not in self.edges]
        if missing:
            raise HarnessError("construct helper did not create %s" % missing)
        for eid, es in self.edge_spec.items():
            e = self.edges[eid]
            if getattr(e.src_node, "id", None) != es["src"] or getattr(e.dest_node, "id", None) != es["dst"]:
                raise RuntimeError("construct helper wired %s as %s -> %s, documented topology is %s -> %s" % (
                    eid, getattr(e.src_node, "id", None), getattr(e.dest_node, "id", None), es["src"], es["dst"]))
        for eid, edge in self.edges.items():
            self.wrap_store(eid, edge)

    def build(self):
        spec = self.spec
        if spec.get("late_seed"):
            # the user builds the model first and sets the experiment seed afterwards, just before run(): whatever the global
            # generator held while the model was being built (late_seed = an arbitrary earlier state) must not matter
            random.seed(987654321 + 7919 * int(spec["late_seed"]))
        else:
            random.seed(spec.get("seed", 0))
        if spec.get("via"):
            return self.build_via_constructs()
        order = spec.get("order") or ([n["id"] for n in spec["nodes"]] + [e["id"] for e in spec["edges"]])
        for oid in order:
            if oid in self.node_spec:
                self.nodes[oid] = self.make_node(self.node_spec[oid])
            else:
                self.edges[oid] = self.make_edge(self.edge_spec[oid])
        for eid in spec.get("connect") or [e["id"] for e in spec["edges"]]:
            es = self.edge_spec[eid]
            self.edges[eid].connect(self.nodes[es["src"]], self.nodes[es["dst"]])
        for eid, edge in self.edges.items():
            self.wrap_store(eid, edge)
        for nid, node in self.nodes.items():
            if self.node_spec[nid]["type"] == "Router":
                node.start_processes()
        self.start_intruders()

    def start_intruders(self):
        """user-written SimPy processes that share an edge with a library node through the documented edge API (as
        tests/test_machine.py does): each asks for space on the edge, holds the granted place for a while and gives it back
        without putting anything.  They bring no items, so every conservation / counter oracle is untouched; their requests are
        booked under the pseudo node '<user process>'."""
        self.intruder_procs = set()
        for sp in self.spec.get("intruders") or []:
            edge = self.edges.get(sp["edge"])
            if edge is None:
                continue
            self.intruder_procs.add(self.env.process(self._intruder(edge, sp)))

    def _intruder(self, edge, sp):
        env = self.env
        for w, h in zip(sp["waits"], sp["holds"]):
            yield env.timeout(w)
            tok = edge.reserve_put()
            yield tok
            yield env.timeout(h)
            edge.reserve_put_cancel(tok)

    # ------------------------------------------------------------------ public state helpers
    def edge_items(self, eid):
        st = self.edge_store(self.edges[eid])
        its = [_unwrap(x) for x in st.items]
        if hasattr(st, "ready_items"):
            its = its + list(st.ready_items)
        return its

    def edge_ready(self, eid):
        st = self.edge_store(self.edges[eid])
        if hasattr(st, "ready_items"):
            return list(st.ready_items)
        return list(st.items)

    def edge_capacity(self, eid):
        return self.edges[eid].capacity

    def live_tokens(self, eid, side, state):
        return [t for t in self.toks.values() if t.edge == eid and t.side == side and t.state == state]

    def in_edge_ids(self, nid):
        n = self.nodes[nid]
        return [e.id for e in (n.in_edges or [])]

    def out_edge_ids(self, nid):
        n = self.nodes[nid]
        return [e.id for e in (n.out_edges or [])]

    # ------------------------------------------------------------------ running
    def poll(self):
        if not self.pending:
            return
        still = []
        for ti in self.pending:
            if ti.state != "pending":
                continue
            if ti.ev.triggered:
                ti.state = "granted"
                ti.t_grant = self.env.now
                ti.k_grant = self.k
            else:
                still.append(ti)
        self.pending = still

    def run(self):
        env = self.env
        try:
            self.build()
        except BaseException as exc:
            if isinstance(exc, (HarnessError, KeyboardInterrupt, SystemExit, MemoryError)):
                raise
            self.build_error = exc
            for o in self.oracles:
                o.on_exception(self, exc)
            for o in self.oracles:
                o.finish(self)
            return self
        if self.spec.get("late_seed"):
            random.seed(self.spec.get("seed", 0))
        for o in self.oracles:
            o.start(self)
        T = self.T
        drain = self.spec.get("drain")     # {"quiet": w, "t_max": m}: keep going after T until no store
        self.drained_at = None             # operation happened for w time units (finite inputs only)
        reports = sorted(self.spec.get("reports") or [])
        while True:
            t = env.peek()
            while reports and reports[0] < min(t, T):
                # an intermediate report: the clock is moved to the report instant (nothing is scheduled before it) and the
                # oracles may read / finalise statistics there, then the run goes on
                rt = reports.pop(0)
                if rt > env.now:
                    for o in self.oracles:
                        o.end_of_instant(self)
                    self.events_this_instant = 0
                    try:
                        env.run(until=rt)
                    except BaseException as exc:
                        raise HarnessError("advance to report time failed: %r" % (exc,))
                for o in self.oracles:
                    if hasattr(o, "on_report"):
                        o.on_report(self, rt)
            if t > T:
                if not drain:
                    break
                last = self.ledger[-1].t if self.ledger else 0.0
                if t > drain["t_max"]:
                    break
                if t - max(last, T) > drain["quiet"]:
                    self.drained_at = t
                    break
            if t > env.now:
                for o in self.oracles:
                    o.end_of_instant(self)
                self.events_this_instant = 0
            try:
                env.step()
            except simpy.core.EmptySchedule:
                break
            except BaseException as exc:
                if isinstance(exc, (HarnessError, KeyboardInterrupt, SystemExit, MemoryError)):
                    raise
                self.crashed = exc
                for o in self.oracles:
                    o.on_exception(self, exc)
                break
            self.k += 1
            self.events_this_instant += 1
            self.poll()
            for o in self.oracles:
                o.after_kernel_event(self)
            if len(self.ledger) > MAX_LEDGER:
                self.runaway = True      # deterministic size guard (e.g. a mutant that loops while yielding)
                break
            if self.events_this_instant > MAX_EVENTS_PER_INSTANT:
                self.livelock = True
                for o in self.oracles:
                    o.on_livelock(self)
                break
        if not self.crashed and not self.livelock:
            for o in self.oracles:
                o.end_of_instant(self)
            if env.now < T and not drain:
                try:
                    env.run(until=T)
                except BaseException as exc:    # nothing is scheduled before T, so nothing can run
                    raise HarnessError("advance to T failed: %r" % (exc,))
        for o in self.oracles:
            o.finish(self)
        return self

    def crash_signature(self):
        """(exception type, innermost factorysimpy frame file:function) through the cause chain"""
        exc = self.crashed or self.build_error
        return exception_signature(exc)


def exception_signature(exc):
    import traceback
    seen = set()
    best = None
    e = exc
    while e is not None and id(e) not in seen:
        seen.add(id(e))
        tb = e.__traceback__
        for fr, ln in traceback.walk_tb(tb):
            fn = fr.f_code.co_filename
            if "factorysimpy" in fn:
                best = (fn.split("factorysimpy")[-1].lstrip("/\\"), fr.f_code.co_name)
        nxt = e.__cause__ or e.__context__
        if best is not None and nxt is None:
            break
        # prefer the innermost cause's frames: keep walking, later (deeper) causes overwrite
        e = nxt
    return (type(exc).__name__,) + (best if best else ("?", "?"))
