"""C18 - counters, time-averaged occupancy and cycle times are truthful; item timestamps are monotone."""
from ..common import Result
from ..harness_factory import FactoryRun, FOracle
from ..fanalysis import NodeBook
from .. import gen_factory

PROP = "C18"
ENGINE = "F"
RULE = ("Engine S (a quarter of the cases): generated store histories on the two time-less stores, BufferStore, FleetStore and "
        "the Buffer/Fleet edges: whenever a store has just refreshed its running average (after every put and get) it "
        "equals the integral of the true content over [0,now]/now. Engine F: generated factories with all edge kinds (Buffer, Fleet, continuous and slotted conveyor), end times "
        "round / non-round, all delay kinds. Oracle from the outside ledger: num_item_processed == pushes, "
        "num_item_received == sink gets, num_item_generated == pushed + discarded + (0|1 held) and == completed "
        "inter-arrival draws, non-blocking machine: num_item_discarded == finished - pushed; after "
        "update_final_*_avg_content(T) the reported average == integral of (puts - gets) over [0,T] / T; sink "
        "total_cycle_time == sum over received items of (reception instant - item.timestamp_creation) with "
        "timestamp_creation in [generation instant, first push instant]; at every put/get the item's stamps are "
        "consistent and non-decreasing (creation <= node exit == put instant; node entry == get instant). Non-trivial: "
        "some edge's occupancy changed >= 4 times, T is not a change instant and >= 1 item was received.")
RULE += (" Two in ten flow-shaped factories also contain rework loops (a machine feeding itself or a machine of an earlier layer through a "
         "Buffer / Fleet edge with a strictly positive delay / transit time, so no zero-time cycle exists); machine oracles work per visit, not per item.")
ASSUMPTIONS = ["creation time is the item's own stamp, bracketed by generation and first push (the library stamps at the first push)",
               "tolerance 1e-9*max(1,T) on averages and sums"]

PROFILE = {"cycles": 2, "conveyors": True, "conveyor_to_sink": True, "pack": 2, "finite": 3}
TOL = 1e-9
AVG_KEY = {"Buffer": "time_averaged_num_of_items_in_buffer", "Fleet": "time_averaged_num_of_items_in_fleet",
           "ContinuousConveyor": "time_averaged_num_of_items_in_conveyor", "SlottedConveyor": "time_averaged_num_of_items_in_conveyor"}
FINAL = {"Buffer": "update_final_buffer_avg_content", "Fleet": "update_final_fleet_avg_content",
         "ContinuousConveyor": "update_final_conveyor_avg_content", "SlottedConveyor": "update_final_conveyor_avg_content"}


def examples(tier):
    return 8000 if tier == "quick" else 240000


S_CLASSES = ["ReservablePriorityReqStore", "ReservableReqStore", "BufferStore", "FleetStore", "Buffer", "Fleet"]
S_WEIGHTS = {"rp": 7, "rg": 6, "put": 8, "get": 6, "cp": 1, "cg": 2, "settle": 1, "adv": 7}


def _with_reports(spec):
    # half of the factories are also asked for an intermediate report (twice at the same instant) before the final one
    sd = spec.get("seed", 0)
    if sd % 2 == 0:
        spec = dict(spec, reports=[round(spec["T"] * [0.37, 0.61, 0.5, 0.83][(sd // 2) % 4], 3)])
    return spec


def strategy(tier):
    from hypothesis import strategies as st
    from .. import gen_store
    f = gen_factory.factories(PROFILE).map(_with_reports)
    return st.one_of(f, f, f, gen_store.case(S_CLASSES, S_WEIGHTS, max_ops=40, macros=4, extra=2))


def shrink_candidates(case):
    if "ops" in case:
        from .. import gen_store
        yield from gen_store.shrink_candidates(case)
    else:
        yield from gen_factory.shrink_candidates(case)


def near(a, b, T):
    return abs(a - b) <= TOL * max(1.0, T, abs(a), abs(b)) * 10


class TruthOracle(FOracle):
    def __init__(self, res, book):
        self.res = res
        self.book = book
        self.first_push = {}
        self.recv = {}       # sink -> [(t, item, creation stamp at reception)]
        self.changes = {}
        self.entered = []
        self.dead = False

    def start(self, f):
        self.kinds = {nid: f.node_spec[nid]["type"] for nid in f.nodes}

    def v(self, sig, msg):
        self.res.violate(sig, msg)

    def on_entry(self, f, e):
        if e.exc is not None or e.op not in ("put", "get"):
            return
        it = e.item
        self.changes.setdefault(e.edge, []).append((e.t, 1 if e.op == "put" else -1))
        es = f.edge_spec[e.edge]
        if e.op == "put":
            nid = es["src"]
            if id(it) not in self.first_push:
                self.first_push[id(it)] = e.t
            tc = getattr(it, "timestamp_creation", None)
            if tc is None or tc > e.t:
                self.v((self.kinds[nid], "timestamps", "creation"),
                       "item %s is put into %s at %s with timestamp_creation=%r" % (it.id, e.edge, e.t, tc))
            tx = getattr(it, "timestamp_node_exit", None)
            if tx is None or tx != e.t:
                self.v((self.kinds[nid], "timestamps", "node_exit"),
                       "item %s leaves %s at %s but timestamp_node_exit=%r" % (it.id, nid, e.t, tx))
        else:
            nid = es["dst"]
            if self.kinds[nid] == "Sink":
                self.recv.setdefault(nid, []).append((e.t, it, getattr(it, "timestamp_creation", None)))
            else:
                self.entered.append((e.t, it, nid))

    def on_report(self, f, rt):
        """an intermediate report at rt < T: the edge finalisers may be called at any time, any number of times; each report
        must equal the integral of the true content over [0, rt] / rt"""
        for rep_no in (0, 1):
            for eid, edge in f.edges.items():
                kind = f.edge_spec[eid]["kind"]
                try:
                    getattr(edge, FINAL[kind])(rt)
                except Exception as e:   # noqa
                    self.v((kind, "avg_occupancy", "finalise_raises"), "%s.%s(%s) raised %s: %s (intermediate report)" % (eid, FINAL[kind], rt, type(e).__name__, e))
                    continue
                rep = edge.stats[AVG_KEY[kind]]
                integ, occ, last = 0.0, 0, 0.0
                for (t, dlt) in self.changes.get(eid, []):
                    integ += occ * (t - last)
                    last = t
                    occ += dlt
                integ += occ * (rt - last)
                exp = integ / rt if rt > 0 else 0.0
                if not near(rep, exp, rt):
                    self.v((kind, "avg_occupancy", "intermediate_report"),
                           "%s: report %s at t=%s says %r, integral of (puts-gets)/t = %r" % (eid, "repeated" if rep_no else "taken", rt, rep, exp))
        self.reported = True

    def after_kernel_event(self, f):
        # the node entry stamp of the object a node has just taken is written right after the get, inside the same kernel step
        for (t, it, nid) in self.entered:
            te = getattr(it, "timestamp_node_entry", None)
            if te is None or te != t:
                self.v((self.kinds[nid], "timestamps", "node_entry"),
                       "item %s entered %s at %s but timestamp_node_entry=%r after that kernel step" % (getattr(it, "id", it), nid, t, te))
        self.entered = []

    def finish(self, f):
        if f.build_error or f.crashed or f.livelock or f.runaway:
            return
        T = f.T
        # ---------------------------------------------------------------- counters
        for nid, kind in self.kinds.items():
            node = f.nodes[nid]
            ns = f.node_spec[nid]
            st_ = node.stats
            pushes = len(self.book.pushes[nid])
            pulls = len(self.book.pulls[nid])
            if kind in ("Machine", "Splitter", "Combiner"):
                if st_["num_item_processed"] != pushes:
                    self.v((kind, "processed"), "%s: num_item_processed=%d but %d items were pushed downstream" % (nid, st_["num_item_processed"], pushes))
                if kind == "Machine" and not ns.get("blocking", True):
                    src = f.sources.get((nid, "delay"))
                    fin = 0
                    for j, (t, k, item, ei, eid) in enumerate(self.book.pulls[nid]):
                        d = src.values[0] if src.kind == "const" else (src.log[j][2] if j < len(src.log) else None)
                        if d is not None and t + d <= T:
                            fin += 1
                    if st_["num_item_discarded"] != fin - pushes:
                        self.v((kind, "discarded"), "%s: num_item_discarded=%d but %d items finished and %d were pushed" % (
                            nid, st_["num_item_discarded"], fin, pushes))
                if ns.get("blocking", True) and st_["num_item_discarded"] != 0:
                    self.v((kind, "discarded"), "%s (blocking): num_item_discarded=%d" % (nid, st_["num_item_discarded"]))
            elif kind == "Source":
                g = st_["num_item_generated"]
                d = g - pushes - st_["num_item_discarded"]
                if d not in (0, 1):
                    self.v((kind, "generated"), "%s: generated=%d pushed=%d discarded=%d" % (nid, g, pushes, st_["num_item_discarded"]))
                src = f.sources[(nid, "iat")]
                if src.kind != "const":
                    done = sum(1 for c in src.log if c[0] + c[2] <= T)
                    if g != done:
                        self.v((kind, "generated"), "%s: num_item_generated=%d but %d inter-arrival periods were completed by T=%s" % (nid, g, done, T))
            elif kind == "Sink":
                got = len(self.recv.get(nid, []))
                if st_["num_item_received"] != got:
                    self.v((kind, "received"), "%s: num_item_received=%d but %d items were taken" % (nid, st_["num_item_received"], got))
                exp = 0.0
                bad = None
                for (t, it, tc) in self.recv.get(nid, []):
                    if tc is None:
                        bad = it
                        break
                    exp += t - tc
                    fp = self.first_push.get(id(it))
                    if fp is not None and tc > fp:
                        self.v((kind, "cycle_time", "creation_after_first_push"),
                               "item %s: timestamp_creation=%s later than its first push %s" % (it.id, tc, fp))
                if bad is None and not near(st_["total_cycle_time"], exp, T):
                    self.v((kind, "cycle_time"), "%s: total_cycle_time=%r but sum(reception - creation)=%r over %d items" % (
                        nid, st_["total_cycle_time"], exp, got))
        # ---------------------------------------------------------------- generation bracket
        for nid, kind in self.kinds.items():
            if kind != "Source":
                continue
            src = f.sources[(nid, "iat")]
            if src.kind == "const":
                continue
            gens = [c[0] + c[2] for c in src.log]
            for i, p in enumerate(self.book.pushes[nid]):
                it = p[2]
                if not f.node_spec[nid].get("blocking", True):
                    break
                if i < len(gens) and it.timestamp_creation is not None and it.timestamp_creation < gens[i] - TOL:
                    self.v((kind, "timestamps", "creation_before_generation"),
                           "item %s: timestamp_creation=%s earlier than its generation instant %s" % (it.id, it.timestamp_creation, gens[i]))
                    break
        # ---------------------------------------------------------------- averages
        rich = False
        any_recv = any(self.recv.values())
        for eid, edge in f.edges.items():
            kind = f.edge_spec[eid]["kind"]
            try:
                getattr(edge, FINAL[kind])(T)
            except Exception as e:   # noqa
                self.v((kind, "avg_occupancy", "finalise_raises"), "%s.%s(%s) raised %s: %s" % (eid, FINAL[kind], T, type(e).__name__, e))
                continue
            rep = edge.stats[AVG_KEY[kind]]
            ch = self.changes.get(eid, [])
            integ = 0.0
            occ = 0
            last = 0.0
            for (t, dlt) in ch:
                integ += occ * (t - last)
                last = t
                occ += dlt
            integ += occ * (T - last)
            exp = integ / T if T > 0 else 0.0
            if not near(rep, exp, T):
                self.v((kind, "avg_occupancy"), "%s: reported time-averaged content %r, integral of (puts-gets)/T = %r (T=%s, %d changes)" % (
                    eid, rep, exp, T, len(ch)))
            if len(ch) >= 4 and all(t != T for t, _ in ch):
                rich = True
        self.res.nontrivial = bool(rich and any_recv)


def run_store(case):
    """Engine S part: the running average every store keeps (time_averaged_num_of_items_in_store) must equal the
    integral of its true content over [0, now] / now whenever the store has just refreshed it (after a put or get)."""
    from ..harness_store import StoreRun, Oracle

    class Avg(Oracle):
        def __init__(self, res):
            self.res = res
            self.integ = 0.0
            self.last = 0.0
            self.occ = 0
            self.changes = 0

        def after_op(self, h, op, outcome):
            if op[0] not in ("put", "get") or outcome["status"] != "ok":
                return
            now = h.env.now
            self.integ += self.occ * (now - self.last)
            self.last = now
            self.occ += 1 if op[0] == "put" else -1
            self.changes += 1
            if now <= 0:
                return
            S = h.subj
            rep = S.store.time_averaged_num_of_items_in_store
            exp = self.integ / now
            if not near(rep, exp, now):
                self.res.violate((S.cls, "avg_occupancy", "running"),
                                 "after %s at t=%s the store reports a time-averaged content of %r, the integral of its content over [0,%s]/%s is %r" % (
                                     op[0], now, rep, now, now, exp))
            if S.edge is not None:
                key = AVG_KEY.get(S.cls)
                if key and not near(S.edge.stats[key], exp, now):
                    self.res.violate((S.cls, "avg_occupancy", "edge_stats"),
                                     "after %s at t=%s the edge reports %r, expected %r" % (op[0], now, S.edge.stats[key], exp))
    res = Result()
    o = Avg(res)
    h = StoreRun(case, res, [o])
    h.run()
    res.nontrivial = o.changes >= 4 and h.env.now > 0
    res.classes = ["store:" + case["subject"]["cls"]]
    return res


def run_case(case):
    if "ops" in case:
        return run_store(case)
    res = Result()
    book = NodeBook()
    o = TruthOracle(res, book)
    f = FactoryRun(case, res, [book, o])
    f.run()
    res.classes += ["shape:" + case.get("shape", "?")] + sorted(set("edge:" + e["kind"] for e in case["edges"]))
    if f.crashed or f.build_error:
        res.aborted = "crash:%s" % type(f.crashed or f.build_error).__name__
    if f.livelock:
        res.aborted = "livelock"
    return res
