"""C14 - a fleet delivers whole batches after a full round trip."""
from ..common import Result, close
from ..harness_store import StoreRun, Oracle
from .. import gen_store
from hypothesis import strategies as st

PROP = "C14"
ENGINE = "S"
RULE = ("Engine S histories on FleetStore and the Fleet edge: capacity 1-5, waiting delay in {0.5,1,1.3,2,3}, transit in "
        "{0,0.3,0.5,1,2}, loading bursts reaching capacity, trickles, loads during a trip and in the very instant of a "
        "departure (before and after the departure event), consumers fast / slow / absent. Oracle: reference model of "
        "the departure instants (capacity instants = a put makes items held == capacity; timer expiries of the "
        "documented dispatcher timer: period = delay, restarted at every wake-up) -> every item loaded at p must become "
        "available exactly at w + 2*transit where w is the first departure instant >= p (either of the two candidates "
        "when p == w), never earlier (premature / rides an earlier trip), never later (left behind / waits too long); "
        "items of one batch appear in loading order and are handed to successive retrievals in that order (binding model of C06 with "
        "batch members ranked by loading order; a cancelled granted retrieval releases its item ahead of the never-reserved ones); the fleet "
        "never spins in zero time (the waiting delay is > 0 in every case), which would keep loaded items from ever arriving; a delivered, "
        "unreserved item never coexists with a waiting retrieval at the end of an instant. "
        "Non-trivial: >=2 departures with items, and a load during a trip or "
        "in a departure instant.")
ASSUMPTIONS = ["timer phase of the dispatcher (restart at every wake-up) is taken from the implementation; everything else from the statement",
               "delay == 0 is not generated here (zero-time spin, owned by C20)"]

WEIGHTS = {"rp": 8, "rg": 4, "put": 9, "get": 4, "cp": 1, "cg": 1, "settle": 2, "adv": 7, "peek": 3}
CLASSES = ["FleetStore", "Fleet"]


def examples(tier):
    return 24000 if tier == "quick" else 480000


def _subject(t):
    ci, cap, d, tr = t
    return {"cls": CLASSES[ci], "capacity": 1 + cap, "delay": [0.5, 1, 1.3, 2, 3][d], "transit": [0, 0.3, 0.5, 1, 2][tr]}


def strategy(tier):
    subj = st.tuples(st.integers(0, 1), st.integers(0, 4), st.integers(0, 4), st.integers(0, 4)).map(_subject)
    base = gen_store.case(CLASSES, WEIGHTS, max_ops=45)
    return st.tuples(base, subj).map(lambda t: dict(t[0], subject=t[1]))


shrink_candidates = gen_store.shrink_candidates


class FleetOracle(Oracle):
    def __init__(self, res):
        self.res = res
        self.wakes = []
        self.cap_wakes = []      # (instant, sequence number of the load that brought the fleet to capacity)
        self.next_tick = None
        self.load = {}      # id(item) -> (p, item, seq)
        self.avail = {}     # id(item) -> a
        self.dead = False
        self.deliveries = set()

    def start(self, h):
        self.delay = h.subj.spec["delay"]
        self.tr = h.subj.spec["transit"]
        self.next_tick = h.env.now + self.delay

    def arr(self, w):
        return (w + self.tr) + self.tr

    def flush(self, now, strict=False):
        while (self.next_tick < now) if strict else (self.next_tick <= now):
            w = self.next_tick
            self.wakes.append(w)
            self.next_tick = w + self.delay

    def candidates(self, p, seq=None):
        """departure instants admissible for an item loaded at p (first wake >= p; both when tie - except
        when the departure was caused by a load that is not older than this item: then it was waiting)"""
        ws = [w for w in self.wakes if w >= p or close(w, p)]
        if not ws:
            return None
        out = [ws[0]]
        if close(ws[0], p) and seq is not None and any(close(w, ws[0]) and s >= seq for (w, s) in self.cap_wakes):
            return out
        if close(ws[0], p):
            nxt = [w for w in ws if w > ws[0] and not close(w, ws[0])]
            if nxt:
                out.append(nxt[0])
            else:
                out.append(None)     # next departure not known yet
        return out

    def in_trip(self, p):
        return any(w < p < self.arr(w) and not close(w, p) and not close(p, self.arr(w)) for w in self.departures())

    def departures(self):
        ds = set()
        for i, (p, item, seq) in self.load.items():
            c = self.candidates(p)
            if c:
                ds.add(c[0])
        return ds

    def observe(self, h, where):
        if self.dead:
            return
        now = h.env.now
        self.flush(now)
        ready = h.subj.ready()
        new = [x for x in ready if id(x) in self.load and id(x) not in self.avail]
        # loading order inside what appeared together
        seqs = [self.load[id(x)][2] for x in new]
        if seqs != sorted(seqs):
            self.res.violate(("order", "plain"), "items became available in order %s, loaded in order %s (t=%s)" % (
                [x.id for x in new], [x.id for x in sorted(new, key=lambda x: self.load[id(x)][2])], now))
            self.dead = True
            return
        for x in new:
            p, _, seq = self.load[id(x)]
            self.avail[id(x)] = now
            self.deliveries.add(now)
            c = self.candidates(p, seq)
            flag = "loaded_during_trip" if self.in_trip(p) else "plain"
            if c is None:
                self.res.violate(("premature", flag),
                                 "item %s loaded at %s is available at %s although no departure (capacity instant or timer expiry; "
                                 "next timer %s) happened since" % (x.id, p, now, self.next_tick))
                self.dead = True
                return
            ok = any(w is not None and close(self.arr(w), now) for w in c)
            if not ok:
                first = self.arr(c[0])
                if now < first:
                    self.res.violate(("premature", flag),
                                     "item %s loaded at %s became available at %s; its departure is %s so a full round trip (2x%s) "
                                     "ends at %s" % (x.id, p, now, c[0], self.tr, first))
                else:
                    self.res.violate(("late", flag),
                                     "item %s loaded at %s became available at %s; departure %s + round trip = %s" % (
                                         x.id, p, now, c[0], first))
                self.dead = True
                return

    def end_of_instant(self, h):
        if self.dead:
            return
        self.observe(h, "eoi")
        now = h.env.now
        # "available to the destination": an arrived item that nobody has reserved is handed to a destination that is waiting
        pend = h.pending("g")
        if pend:
            free = len(h.subj.ready()) - len(h.granted("g"))
            if free > 0:
                self.res.violate(("too_long", "waiting_destination"),
                                 "%d delivered item(s) are available and unreserved at the end of instant %s while %d retrieval request(s) of the "
                                 "destination are still waiting" % (free, now, len(pend)))
                self.dead = True
                return
        for i, (p, item, seq) in self.load.items():
            if i in self.avail:
                continue
            c = self.candidates(p, seq)
            if not c:
                continue
            last = c[-1]
            if last is None:
                continue
            due = self.arr(last)
            if due < now and not close(due, now) or (close(due, now) and h.env.peek() > now and due <= now):
                flag = "loaded_during_trip" if self.in_trip(p) else "plain"
                clause = "batch_split" if any(close(a, self.arr(c[0])) for a in self.deliveries) else "too_long"
                self.res.violate((clause, flag),
                                 "item %s loaded at %s is still not available at the end of instant %s; it should have left at %s and "
                                 "arrived at %s (delay=%s transit=%s)" % (item.id, p, now, c[0], self.arr(c[0]), self.delay, self.tr))
                self.dead = True
                return

    def after_kernel_event(self, h):
        self.observe(h, "kernel")

    def after_op(self, h, op, outcome):
        if self.dead:
            return
        now = h.env.now
        if op[0] == "put" and outcome["status"] == "ok":
            item = outcome["item"]
            self.flush(now, strict=True)
            self.load[id(item)] = (now, item, len(self.load))
            held = len(h.put_items) - len(h.got_items)
            if held == h.subj.capacity:
                self.wakes.append(now)
                self.cap_wakes.append((now, len(self.load) - 1))
                self.next_tick = now + self.delay
                h.flags.add("capacity_departure")
            if self.in_trip(now) or any(close(w, now) for w in self.wakes):
                h.flags.add("load_in_trip_or_departure")
        self.observe(h, "op")

    def livelock(self, h):
        # (delay > 0 here: the documented dispatcher always lets the clock advance)
        if not self.dead:
            waiting = [item.id for i, (p, item, seq) in self.load.items() if i not in self.avail]
            self.res.violate(("too_long", "livelock"),
                             "the fleet spins without letting the clock advance at t=%s (more than 5000 kernel events in one instant): "
                             "loaded items %s can never be delivered (delay=%s transit=%s)" % (h.env.now, waiting, self.delay, self.tr))
            self.dead = True

    def finish(self, h):
        deps = [w for w in self.departures()]
        if len(deps) >= 2 and "load_in_trip_or_departure" in h.flags:
            self.res.nontrivial = True


def run_case(case):
    from .c06 import DisciplineOracle
    res = Result()
    res_d = Result()
    # "in loading order" also covers the order in which the destination is handed the items of a batch, including after a
    # granted retrieval was cancelled: the binding model of C06, here with batch members ranked by arrival (= loading) order
    disc = DisciplineOracle(res_d, rank_within_batch=True)
    h = StoreRun(case, res, [FleetOracle(res), disc])
    h.run()
    for sig, msg in res_d.violations:
        res.violate(("order", "hand_out"), msg)
    res.classes = [case["subject"]["cls"], "transit=%s" % case["subject"]["transit"]] + sorted(h.flags)
    if res.aborted:
        res.classes.append("aborted:" + res.aborted)
    return res
