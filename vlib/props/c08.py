"""C08 - a machine holds <= work_capacity items, each for exactly one processing delay drawn once;
splitters and combiners hold one unit of work for exactly their processing delay."""
from ..common import Result
from ..harness_factory import FactoryRun, FOracle
from ..fanalysis import NodeBook, counts, edge_room
from .. import gen_factory

PROP = "C08"
ENGINE = "F"
RULE = ("Engine F: generated factories (work_capacity 1-3, 1-3 in/out edges, all policies, processing delay constant / "
        "callable / generator supplied by the harness so every drawn value and call instant is recorded, arrival bursts, "
        "out-edges full at the first item / later / partly). Oracle from the outside ledger: pulled - pushed - discarded "
        "<= work_capacity after every kernel event; number of delay draws == number of items pulled, each drawn in the "
        "kernel step of its pull; no item is pushed before t_pull + d (exact kernel arithmetic); for blocking nodes at the "
        "end of every instant every finished, unpushed item has a worker waiting with a live space request (so it leaves "
        "at the first instant a permitted out-edge grants one) and no granted space request is left unused. Splitter: per "
        "pallet one draw, nothing emitted before t_pull + d. Combiner: one draw per pallet, pallet not pushed before "
        "max(last ingredient pulled, previous pallet pushed) + d. Non-trivial: work_capacity >= 2 with >= 2 items resident "
        "at once, or an item that had to wait for room, or pulls from >= 2 in-edges in one instant.")
RULE += (" Two in ten flow-shaped factories also contain rework loops (a machine feeding itself or a machine of an earlier layer through a "
         "Buffer / Fleet edge with a strictly positive delay / transit time, so no zero-time cycle exists); machine oracles work per visit, not per item.")
ASSUMPTIONS = ["conveyor out-edges: only the 'not before t_pull+d' half and the waiting-worker invariant (admission depends on spacing/stall)",
               "discards are visible only through num_item_discarded"]

PROFILE = {"cycles": 2, "conveyors": True, "conveyor_to_sink": True, "pack": 3, "finite": 3}


def examples(tier):
    return 12000 if tier == "quick" else 240000


def strategy(tier):
    return gen_factory.factories(PROFILE)


shrink_candidates = gen_factory.shrink_candidates


class ProcessingOracle(FOracle):
    def __init__(self, res, book):
        self.res = res
        self.book = book
        self.dead = set()
        self.flags = set()

    def v(self, nid, sig, msg):
        if nid in self.dead:
            return
        self.dead.add(nid)
        self.res.violate(sig, msg)

    def start(self, f):
        self.kinds = {nid: f.node_spec[nid]["type"] for nid in f.nodes}
        self.max_resident = {nid: 0 for nid in f.nodes}

    # ---- helpers
    def delay_of(self, f, nid, j):
        src = f.sources.get((nid, "delay"))
        if src is None:
            return None
        if src.kind == "const":
            return src.values[0]
        if j < len(src.log):
            return src.log[j][2]
        return None

    def machine_ready_times(self, f, nid):
        """[(item, t_pull, k_pull, d, t_ready)] for every pulled item whose draw is known"""
        out = []
        for j, (t, k, item, ei, eid) in enumerate(self.book.pulls[nid]):
            d = self.delay_of(f, nid, j)
            out.append((item, t, k, d, None if d is None else t + d))
        return out

    def combiner_ready(self, f, nid):
        """per pallet: (pallet, t_last_pull, d, t_ready or None)"""
        pulls = self.book.pulls[nid]
        pushes = self.book.pushes[nid]
        spec = f.node_spec[nid]
        need = sum(spec["recipe"][1:len(f.in_edge_ids(nid))])
        out = []
        cur = None
        cnt = 0
        for (t, k, item, ei, eid) in pulls:
            if ei == 0:
                cur = [item, t, k]
                cnt = 0
                if need == 0:
                    out.append(cur)
            else:
                cnt += 1
                if cur is not None:
                    cur[1], cur[2] = t, k
                    if cnt == need:
                        out.append(cur)
        res = []
        prev_push = None
        for j, (pallet, tl, kl) in enumerate(out):
            d = self.delay_of(f, nid, j)
            tp = self.book.t_push.get((nid, id(pallet)))
            start = tl if prev_push is None else max(tl, prev_push)
            res.append((pallet, tl, kl, d, None if d is None else start + d, tp))
            if tp is None:
                break
            prev_push = tp[0]
        return res

    # ---- hooks
    def on_entry(self, f, e):
        if e.exc is not None or e.op != "put":
            return
        nid = f.edge_spec[e.edge]["src"]
        kind = self.kinds[nid]
        if kind == "Machine":
            tp = self.book.t_pull.get((nid, id(e.item)))
            if tp is None:
                return
            j = self.book.pull_idx.get((nid, id(e.item)))      # the item's current visit (it may come round again)
            d = self.delay_of(f, nid, j) if j is not None else None
            if d is not None and e.t < tp[0] + d:
                self.v(nid, ("Machine", "early_push"), "%s pushed %s at %s, pulled at %s with delay %s (ready %s)" % (
                    nid, e.item.id, e.t, tp[0], d, tp[0] + d))
            if d is not None and e.t > tp[0] + d:
                self.flags.add("waited_for_room")
        elif kind == "Splitter":
            pl = self.book.pulls[nid]
            if not pl:
                return
            j = len(pl) - 1
            d = self.delay_of(f, nid, j)
            if d is not None and e.t < pl[j][0] + d:
                self.v(nid, ("Splitter", "early_push"), "%s emitted %s at %s, pallet pulled at %s with delay %s" % (
                    nid, getattr(e.item, "id", e.item), e.t, pl[j][0], d))
        elif kind == "Combiner":
            for (pallet, tl, kl, d, tr, tp) in self.combiner_ready(f, nid):
                if pallet is e.item and tr is not None and e.t < tr:
                    self.v(nid, ("Combiner", "early_push"), "%s pushed pallet %s at %s; last ingredient at %s, delay %s, ready %s" % (
                        nid, pallet.id, e.t, tl, d, tr))

    def after_kernel_event(self, f):
        for nid, kind in self.kinds.items():
            if kind == "Splitter" and f.node_spec[nid].get("blocking", True) and nid not in self.dead:
                # one unit of work: a blocking splitter has not pulled the next pallet before the previous one left
                pulled = len(self.book.pulls[nid])
                done = sum(1 for p in self.book.pushes[nid] if p[5] is not None)     # pallets pushed
                if pulled - done > 1:
                    self.v(nid, ("Splitter", "over_capacity"), "%s holds %d pallets at once (t=%s)" % (nid, pulled - done, f.env.now))
            if kind != "Machine":
                continue
            node = f.nodes[nid]
            resident = self.book.held[nid] - node.stats["num_item_discarded"]
            if resident > self.max_resident[nid]:
                self.max_resident[nid] = resident
            if resident > node.work_capacity:
                self.v(nid, ("Machine", "over_capacity"), "%s holds %d items (pulled-pushed-discarded), work_capacity %d (t=%s)" % (
                    nid, resident, node.work_capacity, f.env.now))

    def end_of_instant(self, f):
        now = f.env.now
        for nid, kind in self.kinds.items():
            if nid in self.dead:
                continue
            spec = f.node_spec[nid]
            node = f.nodes[nid]
            if kind not in ("Machine", "Splitter", "Combiner"):
                continue
            src = f.sources.get((nid, "delay"))
            # delay draws
            if src is not None and src.kind != "const":
                if kind == "Machine" or kind == "Splitter":
                    pulls = self.book.pulls[nid]
                    if len(src.log) != len(pulls):
                        self.v(nid, (kind, "delay_draws"), "%s: %d delay draws for %d pulled items (t=%s)" % (
                            nid, len(src.log), len(pulls), now))
                        continue
                    for (t, k, _v), p in zip(src.log, pulls):
                        if t != p[0]:
                            self.v(nid, (kind, "delay_draws"), "%s: delay drawn at %s for an item pulled at %s" % (nid, t, p[0]))
                            break
                else:
                    done = [x for x in self._complete_pallets(f, nid)]
                    if len(src.log) != len(done):
                        self.v(nid, (kind, "delay_draws"), "%s: %d delay draws for %d completed pallets (t=%s)" % (
                            nid, len(src.log), len(done), now))
                        continue
            if not spec.get("blocking", True):
                continue
            live = [t for t in f.toks.values() if t.node == nid and t.side == "p" and t.state in ("pending", "granted")]
            unused = [t for t in live if t.state == "granted"]
            if unused:
                self.v(nid, (kind, "late_push", "granted_unused"),
                       "%s: space request on %s granted at %s is still unused at the end of instant %s" % (
                           nid, unused[0].edge, unused[0].t_grant, now))
                continue
            stuck = [t for t in live if t.state == "pending" and f.edge_spec[t.edge]["kind"] in ("Buffer", "Fleet")
                     and edge_room(f, t.edge) > 0]
            if stuck:
                # "leaves later only while every permitted out-edge is unable to accept it"
                self.v(nid, (kind, "late_push", "room"),
                       "%s holds a finished item and waits for %s (request of t=%s) although that edge has room for %d at the end of instant %s" % (
                           nid, stuck[0].edge, stuck[0].t_issue, edge_room(f, stuck[0].edge), now))
                continue
            P = len(set(id(t.proc) for t in live))
            if kind == "Machine":
                R = 0
                for j, (item, tp, kp, d, tr) in enumerate(self.machine_ready_times(f, nid)):
                    if tr is not None and tr <= now and (nid, j) not in self.book.push_of_pull:
                        R += 1
            elif kind == "Splitter":
                pl = self.book.pulls[nid]
                R = 0
                if pl:
                    j = len(pl) - 1
                    d = self.delay_of(f, nid, j)
                    pallet = pl[j][2]
                    if d is not None and pl[j][0] + d <= now and (nid, id(pallet)) not in self.book.t_push:
                        R = 1
            else:
                R = 0
                for (pallet, tl, kl, d, tr, tp) in self.combiner_ready(f, nid):
                    if tp is None and tr is not None and tr <= now:
                        R = 1
            if R != P:
                self.v(nid, (kind, "late_push", "no_waiting_worker" if R > P else "extra_request"),
                       "%s: %d finished unpushed item(s) but %d worker(s) hold live space requests at the end of instant %s" % (
                           nid, R, P, now))

    def _complete_pallets(self, f, nid):
        spec = f.node_spec[nid]
        need = sum(spec["recipe"][1:len(f.in_edge_ids(nid))])
        out = []
        cnt = None
        for (t, k, item, ei, eid) in self.book.pulls[nid]:
            if ei == 0:
                cnt = 0
                if need == 0:
                    out.append(item)
            elif cnt is not None:
                cnt += 1
                if cnt == need:
                    out.append(item)
        return out

    def finish(self, f):
        nt = "waited_for_room" in self.flags
        for nid, kind in self.kinds.items():
            if kind == "Machine" and f.nodes[nid].work_capacity >= 2 and self.max_resident[nid] >= 2:
                nt = True
            pulls = self.book.pulls[nid]
            for a, b in zip(pulls, pulls[1:]):
                if a[0] == b[0] and a[4] != b[4]:
                    nt = True
        self.res.nontrivial = nt


def run_case(case):
    res = Result()
    book = NodeBook()
    o = ProcessingOracle(res, book)
    f = FactoryRun(case, res, [book, o])
    f.run()
    res.classes += ["shape:" + case.get("shape", "?")] + sorted(set("node:" + n["type"] for n in case["nodes"]))
    if f.crashed or f.build_error:
        res.aborted = "crash:%s" % type(f.crashed or f.build_error).__name__
    if f.livelock:
        res.aborted = "livelock"
    return res
