"""C09 - blocking nodes never discard; non-blocking nodes never wait."""
from ..common import Result
from ..harness_factory import FactoryRun, FOracle
from ..fanalysis import NodeBook, policy_class
from .. import gen_factory

PROP = "C09"
ENGINE = "F"
RULE = ("Engine F: generated factories, every node type x blocking flag x out-edge policy x Buffer/Fleet out-edges with "
        "congestion (slow downstream machines, tiny buffers, fleets with long trips). Oracle: blocking node: "
        "num_item_discarded stays 0. Non-blocking machine: every pushed item is pushed exactly at t_pull + d; at the end "
        "of every instant (items finishing now) == (pushed now) + (discard counter increase now); every can_put() probe the "
        "node makes is recorded with the ledger-room of that very moment: a worker whose probes found room pushes (on the "
        "first edge that had room), one that found none discards, the counter rises by exactly the number of such workers, "
        "and can_put's answer equals ledger-room > 0. Non-blocking source: each item is pushed or counted as discarded at its "
        "generation instant and the next inter-arrival draw happens in that same instant (it never waits). Non-blocking "
        "splitter/combiner: nothing is pushed later than its ready instant. Non-trivial: a node met a full selected "
        "out-edge at least once and a free one at least once.")
RULE += (" Two in ten flow-shaped factories also contain rework loops (a machine feeding itself or a machine of an earlier layer through a "
         "Buffer / Fleet edge with a strictly positive delay / transit time, so no zero-time cycle exists); machine oracles work per visit, not per item.")
RULE += (" One factory in three has two user-written SimPy processes sharing a Buffer out-edge of a non-blocking Machine / Source with that node "
         "(reserve_put, hold the granted place, reserve_put_cancel; no items), so that granted and waiting space requests of strangers are "
         "withdrawn around the node's own decisions.")
ASSUMPTIONS = ["non-blocking nodes in front of conveyors are excluded by construction (known finding K1, C20)",
               "room is judged for Buffer/Fleet out-edges at the kernel event of the probe"]

PROFILE = {"cycles": 2, "conveyors": False, "pack": 3, "finite": 2, "nonblocking": True}


def examples(tier):
    return 8000 if tier == "quick" else 240000


_IW = [0.3, 0.5, 1, 1.3, 2, 0.7]
_IH = [0.5, 1, 2, 0.7, 1.3]


def _with_intruders(spec):
    """one factory in three: two user-written processes share the first Buffer out-edge of a non-blocking Machine / Source with
    that node (they ask for space, hold the granted place for a while and give it back; nothing is put).  Scripts are a pure
    function of the spec's seed."""
    s = int(spec.get("seed", 0))
    if s % 3 != 0 or spec.get("via"):
        return spec
    nb = [n["id"] for n in spec["nodes"] if n.get("blocking") is False and n["type"] in ("Machine", "Source")]
    edges = [e for e in spec["edges"] if e["kind"] == "Buffer" and e["src"] in nb]
    if not edges:
        return spec
    e = edges[(s // 3) % len(edges)]
    intr = []
    for j in range(2):
        k = s // 7 + 5 * j
        intr.append({"edge": e["id"],
                     "waits": [_IW[(k + 2 * i + j) % len(_IW)] for i in range(6)],
                     "holds": [_IH[(k + 3 * i) % len(_IH)] for i in range(6)]})
    return dict(spec, intruders=intr)


def strategy(tier):
    return gen_factory.factories(PROFILE).map(_with_intruders)


shrink_candidates = gen_factory.shrink_candidates


class BlockingOracle(FOracle):
    def __init__(self, res, book):
        self.res = res
        self.book = book
        self.dead = set()
        self.disc_prev = {}
        self.push_now = {}
        self.met_full = set()
        self.met_free = set()
        self.unit_sizes = {}

    def v(self, nid, sig, msg):
        if nid in self.dead:
            return
        self.dead.add(nid)
        self.res.violate(sig, msg)

    def start(self, f):
        self.kinds = {nid: f.node_spec[nid]["type"] for nid in f.nodes}
        for nid in f.nodes:
            self.disc_prev[nid] = 0
        self.probe_idx = 0
        self.t_prev = f.env.now

    def sig(self, f, nid, clause, *more):
        ns = f.node_spec[nid]
        return (ns["type"], "blocking" if ns.get("blocking", True) else "nonblocking", policy_class(ns.get("out_sel", "-")), clause) + more

    def delay_of(self, f, nid, j):
        src = f.sources.get((nid, "delay"))
        if src is None:
            return None
        if src.kind == "const":
            return src.values[0]
        return src.log[j][2] if j < len(src.log) else None

    def on_entry(self, f, e):
        if e.exc is None and e.op == "get":
            nid = f.edge_spec[e.edge]["dst"]
            if self.kinds.get(nid) == "Splitter" and isinstance(getattr(e.item, "items", None), list):
                self.unit_sizes[(nid, len(self.book.pulls[nid]) - 1)] = len(e.item.items) + 1
        if e.exc is not None or e.op != "put":
            return
        nid = f.edge_spec[e.edge]["src"]
        if self.kinds[nid] == "Splitter" and not f.node_spec[nid].get("blocking", True):
            pl = self.book.pulls[nid]
            if pl:
                d = self.delay_of(f, nid, len(pl) - 1)
                if d is not None and e.t != pl[-1][0] + d:
                    self.v(nid, self.sig(f, nid, "waited_nonblocking"),
                           "non-blocking %s emitted %s at %s but its pallet was ready at %s" % (
                               nid, getattr(e.item, "id", e.item), e.t, pl[-1][0] + d))
        ns = f.node_spec[nid]
        if ns.get("blocking", True):
            tp = self.book.t_pull.get((nid, id(e.item)))
            if self.kinds[nid] == "Machine" and tp is not None:
                j = self.book.pull_idx.get((nid, id(e.item)))
                d = self.delay_of(f, nid, j) if j is not None else None
                if d is not None:
                    (self.met_full if e.t > tp[0] + d else self.met_free).add(nid)
            return
        if self.kinds[nid] == "Machine":
            tp = self.book.t_pull.get((nid, id(e.item)))
            j = self.book.pull_idx.get((nid, id(e.item)))
            d = self.delay_of(f, nid, j) if j is not None else None
            if tp is not None and d is not None and e.t != tp[0] + d:
                self.v(nid, self.sig(f, nid, "waited_nonblocking"),
                       "non-blocking %s pushed %s at %s but it was ready at %s" % (nid, e.item.id, e.t, tp[0] + d))

    def on_probe(self, f, rec):
        t, k, eid, ans, room, proc = rec[:6]
        nid = f.edge_spec[eid]["src"]
        (self.met_free if ans else self.met_full).add(nid)
        if room is not None and f.edge_spec[eid]["kind"] in ("Buffer", "Fleet"):
            if bool(ans) != (room > 0):
                self.v(nid, self.sig(f, nid, "wrong_decision", "can_put_says_%s" % bool(ans)),
                       "%s probed %s at %s: can_put()=%s but ledger-room=%d" % (nid, eid, t, ans, room))

    def end_of_instant(self, f):
        now = f.env.now
        new_probes = f.probes[self.probe_idx:]
        self.probe_idx = len(f.probes)
        for nid, kind in self.kinds.items():
            if kind == "Sink" or nid in self.dead:
                continue
            ns = f.node_spec[nid]
            node = f.nodes[nid]
            disc = node.stats.get("num_item_discarded", 0)
            dD = disc - self.disc_prev[nid]
            self.disc_prev[nid] = disc
            if ns.get("blocking", True):
                if disc != 0:
                    self.v(nid, self.sig(f, nid, "discarded_while_blocking"), "blocking %s has num_item_discarded=%d (t=%s)" % (nid, disc, now))
                continue
            # a non-blocking node never waits: it reserves space only after can_put() said yes, so no space request
            # of its own may be pending (or granted and unused) when the instant ends
            live = [t for t in f.toks.values() if t.node == nid and t.side == "p" and t.state in ("pending", "granted")]
            if live:
                self.v(nid, self.sig(f, nid, "waited_nonblocking", "live_request"),
                       "non-blocking %s still holds a %s space request on %s (issued at %s) at the end of instant %s: it is waiting with a finished item" % (
                           nid, live[0].state, live[0].edge, live[0].t_issue, now))
                continue
            if kind == "Splitter":
                pl = self.book.pulls[nid]
                expected = 0
                known = True
                for j in range(len(pl)):
                    d = self.delay_of(f, nid, j)
                    if d is None:
                        known = False
                        break
                    if pl[j][0] + d == now:        # several pallets may become ready in one instant (zero delays)
                        n_units = self.unit_sizes.get((nid, j))
                        if n_units is None:
                            known = False
                            break
                        expected += n_units
                if known and expected:
                    pushes_here = [p for p in self.book.pushes[nid] if p[0] == now]
                    if len(pushes_here) + dD != expected:
                        self.v(nid, self.sig(f, nid, "waited_nonblocking" if len(pushes_here) + dD < expected else "counter"),
                               "%s at t=%s: pallets becoming ready now need %d emissions (items + pallets); %d pushed and discard counter +%d" % (
                                   nid, now, expected, len(pushes_here), dD))
            outs = set(f.out_edge_ids(nid))
            pr = [p for p in new_probes if p[2] in outs and p[0] == now]
            groups = {}
            order = []
            for p in pr:
                key = id(p[5])
                if key not in groups:
                    groups[key] = []
                    order.append(key)
                groups[key].append(p)
            pushes_now = [p for p in self.book.pushes[nid] if p[0] == now]
            if ns.get("out_sel") == "FIRST_AVAILABLE":
                # a worker whose probes found no room drops its item: then no out-edge at all may have had room at
                # the moment of its last probe (also the edges it did not ask)
                bad = None
                for key in order:
                    grp = groups[key]
                    if any(p[3] for p in grp):
                        continue
                    rooms = grp[-1][6] if len(grp[-1]) > 6 else {}
                    free = [e for e, r_ in rooms.items() if r_ > 0]
                    if free:
                        bad = (grp, free)
                        break
                if bad:
                    self.v(nid, self.sig(f, nid, "wrong_decision", "dropped_with_room"),
                           "non-blocking FIRST_AVAILABLE %s found no room after asking %s at t=%s although %s had ledger-room" % (
                               nid, [p[2] for p in bad[0]], now, bad[1]))
                    continue
            if kind == "Machine":
                # items finishing in this instant
                F = 0
                for j, (t, k, item, ei, eid) in enumerate(self.book.pulls[nid]):
                    d = self.delay_of(f, nid, j)
                    if d is not None and t + d == now:
                        F += 1
                P = len(pushes_now)
                if F != P + dD:
                    clause = "waited_nonblocking" if F > P + dD else "counter"
                    self.v(nid, self.sig(f, nid, clause),
                           "%s at t=%s: %d item(s) finished, %d pushed, discard counter +%d" % (nid, now, F, P, dD))
                    continue
                exp_disc = sum(1 for key in order if not any(p[3] for p in groups[key]))
                exp_push = sum(1 for key in order if any(p[3] for p in groups[key]))
                if order and (dD != exp_disc or P != exp_push):
                    self.v(nid, self.sig(f, nid, "counter" if dD != exp_disc else "wrong_decision"),
                           "%s at t=%s: probes say %d worker(s) found room and %d found none, but %d pushed and the discard counter rose by %d" % (
                               nid, now, exp_push, exp_disc, P, dD))
                    continue
                # pushed on the first edge that answered True
                first_true = []
                for key in order:
                    ft = next((p[2] for p in groups[key] if p[3]), None)
                    if ft is not None:
                        first_true.append(ft)
                used = [p[4] for p in pushes_now]
                if sorted(first_true) != sorted(used):
                    self.v(nid, self.sig(f, nid, "wrong_decision", "edge"),
                           "%s at t=%s: probes selected %s but pushes went to %s" % (nid, now, first_true, used))
            elif kind == "Source":
                pol = ns.get("out_sel", "FIRST_AVAILABLE")
                if isinstance(pol, dict) and "const" in pol:
                    # a constant index selects ONE out-edge (0 included): the item goes there or is dropped, never elsewhere
                    wrong = [p for p in pushes_now if p[3] != pol["const"]]
                    if wrong:
                        self.v(nid, self.sig(f, nid, "wrong_decision", "edge"),
                               "non-blocking %s with the constant out-edge index %d pushed %s into out-edge %d (%s) at t=%s" % (
                                   nid, pol["const"], wrong[0][2].id, wrong[0][3], wrong[0][4], now))
                        continue
                src = f.sources.get((nid, "iat"))
                # generation instants: consult c_j + value (constant: the kernel's own accumulation t += v,
                # which is where a source that never waits generates)
                if src.kind == "const":
                    v0 = src.values[0]
                    gens = []
                    tt = 0.0 + v0
                    while tt <= now:
                        gens.append(tt)
                        tt = tt + v0
                else:
                    gens = [(c[0] + c[2]) for c in src.log]
                G = sum(1 for g in gens if g == now)
                P = len(pushes_now)
                if G != P + dD:
                    clause = "waited_nonblocking" if G > P + dD or P > G else "counter"
                    self.v(nid, self.sig(f, nid, clause),
                           "%s at t=%s: %d item(s) generated now, %d pushed now, discard counter +%d" % (nid, now, G, P, dD))
                    continue
        # a non-blocking source must draw its next inter-arrival time in the generation instant
        for nid, kind in self.kinds.items():
            if kind != "Source" or nid in self.dead or f.node_spec[nid].get("blocking", True):
                continue
            src = f.sources.get((nid, "iat"))
            log = src.log
            for a, b in zip(log, log[1:]):
                if b[0] != a[0] + a[2]:
                    self.v(nid, self.sig(f, nid, "waited_nonblocking"),
                           "%s generated an item at %s but drew the next inter-arrival time only at %s (it waited)" % (
                               nid, a[0] + a[2], b[0]))
                    break
            if log and log[-1][0] + log[-1][2] < now and len(log) >= 1:
                # the last generation instant has passed but no new draw happened
                if log[-1][2] < 1e8:
                    self.v(nid, self.sig(f, nid, "waited_nonblocking"),
                           "%s generated an item at %s and has not drawn the next inter-arrival time by %s (it is waiting)" % (
                               nid, log[-1][0] + log[-1][2], now))

    def finish(self, f):
        self.res.nontrivial = bool(self.met_full & self.met_free)


def run_case(case):
    res = Result()
    book = NodeBook()
    o = BlockingOracle(res, book)
    f = FactoryRun(case, res, [book, o])
    f.run()
    nb = [n["type"] for n in case["nodes"] if n.get("blocking") is False]
    res.classes += ["shape:" + case.get("shape", "?")] + sorted(set("nonblocking:" + t for t in nb))
    if case.get("intruders"):
        res.classes.append("user_processes_on_out_edge")
    if f.crashed or f.build_error:
        res.aborted = "crash:%s" % type(f.crashed or f.build_error).__name__
    if f.livelock:
        res.aborted = "livelock"
    return res
