"""C01 - capacity never exceeded; a granted space reservation is always honoured."""
from ..common import Result
from ..harness_store import StoreRun, Oracle
from .. import gen_store

PROP = "C01"
ENGINE = "S"
RULE = ("Engine S: Hypothesis-generated operation histories (reserve_put/put/reserve_get/get/cancel of pending and "
        "granted tokens/settle/advance, 1-3 actors, capacity 1-4) on the seven reservable store classes, "
        "Buffer/Fleet edges and both conveyors; oracle after every call and every kernel event: "
        "held + granted-unused put tokens <= capacity, every put with a granted token returns truthy. "
        "Non-trivial: the history reached held+granted == capacity and, while full, executed a put, a cancel "
        "of a granted put token, or an item moved to the ready list. Distinct = distinct case JSON.")
ASSUMPTIONS = ["acting as a process by setting env._active_proc (what simpy.Process._resume does)",
               "held items read from the public lists items / ready_items"]

WEIGHTS = {"rp": 8, "rg": 3, "put": 8, "get": 3, "cp": 3, "cg": 1, "settle": 2, "adv": 3, "peek": 1}
CLASSES = gen_store.ALL_PLAIN + gen_store.BELTS


def examples(tier):
    return 32000 if tier == "quick" else 640000


def strategy(tier):
    return gen_store.case(CLASSES, WEIGHTS, max_ops=40, macros=4, extra=9)


class CapacityOracle(Oracle):
    def __init__(self, res):
        self.res = res
        self.full_before = False
        self.ready_ids = set()

    def _level(self, h):
        held = h.subj.held()
        g = sum(1 for t in h.toks if t.side == "p" and t.state == "granted")
        return held, g

    def _check(self, h, where):
        held, g = self._level(h)
        cap = h.subj.capacity
        if held + g > cap:
            self.res.violate((h.subj.cls, "overflow"),
                             "held=%d + granted_unused_put=%d > capacity=%d %s at t=%s (op #%d)" % (
                                 held, g, cap, where, h.env.now, h.current_op_index))
        full = (held + g == cap)
        # item moved to ready while full?
        if hasattr(h.subj.store, "ready_items"):
            ids = set(id(x) for x in h.subj.store.ready_items)
            if self.full_before and (ids - self.ready_ids):
                self.res.nontrivial = True
            self.ready_ids = ids
        self.full_before = full
        if full:
            h.flags.add("reached_full")

    def after_op(self, h, op, outcome):
        k = op[0]
        if k == "put":
            if outcome["status"] == "exc":
                e = outcome["exc"]
                self.res.violate((h.subj.cls, "put_rejected", type(e).__name__),
                                 "put with granted token raised %s: %s" % (type(e).__name__, e))
            elif not outcome["value"]:
                self.res.violate((h.subj.cls, "put_rejected", "falsy"),
                                 "put with granted token returned %r" % (outcome["value"],))
            if self.full_before:
                self.res.nontrivial = True
        if k == "cp" and outcome.get("was") == "granted" and self.full_before:
            self.res.nontrivial = True
        self._check(h, "after " + k)

    def after_kernel_event(self, h):
        self._check(h, "after kernel event")

    def kernel_exception(self, h, exc):
        if isinstance(exc, RuntimeError) and "exceeds capacity" in str(exc):
            self.res.violate((h.subj.cls, "timer_overflow"), "process raised: %s" % exc)


shrink_candidates = gen_store.shrink_candidates


def run_case(case):
    res = Result()
    o = CapacityOracle(res)
    h = StoreRun(case, res, [o])
    h.run()
    res.classes = [case["subject"]["cls"]]
    if "reached_full" in h.flags:
        res.classes.append("reached_full")
    if res.aborted:
        res.classes.append("aborted")
    return res


def enumerate_cases(tier, shard, nshards):
    return gen_store.enumerate_histories(shard, nshards)


def enum_definition(tier):
    return gen_store.enum_definition()


is_enumerated = gen_store.is_enumerated
