"""C07 - protocol: put/get only with a granted, unused, un-cancelled reservation of one's own."""
from ..common import Result
from ..harness_store import StoreRun, Oracle, Abort
from .. import gen_store
from hypothesis import strategies as st

PROP = "C07"
ENGINE = "S"
MIS = ["no_token", "foreign_token", "pending_token", "used_token", "cancelled_token", "wrong_kind_token",
       "cancel_unknown", "cancel_used", "cancel_cancelled", "other_store_token"]
RULE = ("Engine S histories with misuse calls mixed into valid ones (other reservations and items present; a macro lets one process "
        "take several grants on one side, retire one that is not its oldest and present that dead token again): put/get with "
        "no token, another actor's granted token, a pending / used / cancelled token, a token of the other kind; cancel "
        "of an unknown / used / cancelled token. Oracle: each misuse raises exactly RuntimeError; items/ready_items "
        "(identity and order), occupancy and the triggered flag of every live token are identical before and after; "
        "metamorphic: the same history with the rejected calls deleted produces the identical observable trace. "
        "Non-trivial: a misuse executed with >=1 item inside and >=1 other live granted token on the same side.")
ASSUMPTIONS = ["Buffer edges use a constant delay here: a rejected Buffer.put consumes a value of a delay generator before the store "
               "rejects it, which is outside 'store contents and other reservations'",
               "cancelling another actor's known token is a valid cancel (the statement does not require ownership for cancel)"]

WEIGHTS = {"rp": 7, "rg": 7, "put": 6, "get": 5, "cp": 2, "cg": 2, "settle": 1, "adv": 4, "mis": 9}
CLASSES = gen_store.ALL_PLAIN + gen_store.BELTS


def examples(tier):
    return 24000 if tier == "quick" else 480000


def _fix(case):
    s = case["subject"]
    if s["cls"] == "Buffer" and s.get("delay_kind") != "const":
        # a rejected put may or may not have consulted the delay source first: keep the callable / generator form (the edge
        # treats it differently from a number) but let it answer one and the same value, so that a consumed draw changes nothing
        d = s["delay"]
        s = dict(s, delay=[d[0] if isinstance(d, list) else d])
        case = dict(case, subject=s)
    return case


def strategy(tier):
    return gen_store.case(CLASSES, WEIGHTS, max_ops=40, macros=4, extra=7).map(_fix)


shrink_candidates = gen_store.shrink_candidates


def snapshot(h):
    S = h.subj
    return (tuple(id(x) for x in S.in_transit()), tuple(id(x) for x in S.ready()), S.held(),
            tuple((t.id, t.ev.triggered) for t in h.toks if t.live))


class ProtocolOracle(Oracle):
    def __init__(self, res, do_misuse=True):
        self.res = res
        self.do_misuse = do_misuse
        self.trace = []
        self.last_mis = None
        self.sib = None
        self.sib_tok = None

    def custom_op(self, h, op, outcome):
        if op[0] != "mis":
            return False
        if not self.do_misuse:
            outcome["skipped"] = True
            return True
        S = h.subj
        side = "p" if (op[4] if len(op) > 4 else 0) == 0 else "g"
        ref = op[3]
        actor = op[2] % (h.n_actors + 1)      # index n_actors = a stranger process
        env = h.env

        def toks(pred):
            return [t for t in h.toks if pred(t)]

        def build(kind):
            if kind == "other_store_token":
                # a live reservation of the same process on ANOTHER store of the same class (a node with two in-edges holds
                # such tokens all the time): this store must refuse it and must not touch the other store
                from ..harness_store import Subject
                if actor >= h.n_actors:
                    return None
                if self.sib is None:
                    self.sib = Subject(env, dict(h.case["subject"]))
                sib = self.sib
                if side == "p":
                    st0, tok = h.as_actor(actor, sib.reserve_put, 0)
                else:
                    st0, tok = h.as_actor(actor, sib.reserve_get, 0, h.filters[0])
                if st0 != "ok":
                    return None
                self.sib_tok = (sib, side, tok, actor)
                return (actor, ("c" + side) if ref % 2 == 0 else side, tok)
            if kind == "no_token":
                return (actor, side, env.event())
            if kind == "cancel_unknown":
                return (actor, "c" + side, env.event())
            if kind == "wrong_kind_token":
                other = "g" if side == "p" else "p"
                el = toks(lambda t: t.side == other and t.state == "granted")
                if el:
                    t = el[ref % len(el)]
                    return (t.actor, side, t.ev)
                return None
            want = {"foreign_token": "granted", "pending_token": "pending", "used_token": "used",
                    "cancelled_token": "cancelled", "cancel_used": "used", "cancel_cancelled": "cancelled"}[kind]
            el = toks(lambda t: t.side == side and t.state == want)
            if not el:
                return None
            t = el[ref % len(el)]
            if kind == "foreign_token":
                others = [a for a in range(h.n_actors + 1) if a != t.actor]
                return (others[op[2] % len(others)], side, t.ev)
            if kind.startswith("cancel_"):
                return (t.actor, "c" + side, t.ev)
            return (t.actor, side, t.ev)

        call = None
        # construction, not rejection: take the first applicable kind starting at the requested one,
        # trying the token-based kinds before the two that are always applicable
        order = [MIS[(op[1] + j) % len(MIS)] for j in range(len(MIS))]
        order = [k for k in order if k not in ("no_token", "cancel_unknown", "other_store_token")] + [
            k for k in order if k in ("no_token", "cancel_unknown")]
        if MIS[op[1] % len(MIS)] == "other_store_token":
            order = ["other_store_token"] + order
        if MIS[op[1] % len(MIS)] in ("no_token", "cancel_unknown"):
            order = [MIS[op[1] % len(MIS)]]
        for kind in order:
            call = build(kind)
            if call is not None:
                break
        if call is None:
            outcome["skipped"] = True
            return True
        who, what, ev = call
        before = snapshot(h)
        if S.held() >= 1 and any(t.state == "granted" and t.side == side and t.ev is not ev for t in h.toks):
            self.res.nontrivial = True
        if what == "p":
            from factorysimpy.helper.item import Item
            item = Item("misuse")
            item.kind, item.serial, item.length = "a", -1, 1
            st_, v = h.as_actor(who, S.put, ev, item, 0)
        elif what == "g":
            st_, v = h.as_actor(who, S.get, ev)
        elif what == "cp":
            st_, v = h.as_actor(who, S.cancel_put, ev)
        else:
            st_, v = h.as_actor(who, S.cancel_get, ev)
        outcome["expected_exc"] = True
        outcome["status"] = st_
        self.last_mis = (kind, what)
        self.res.classes.append("mis:" + kind)
        sigbase = (S.cls, kind, "put" if what == "p" else "get" if what == "g" else "cancel")
        if st_ != "exc":
            self.sib_tok = None
            self.res.violate(sigbase + ("not_rejected",),
                             "%s by actor %d was accepted (returned %r) instead of raising RuntimeError (op#%d)" % (
                                 kind, who, v, h.current_op_index))
            raise Abort("c07_desync")
        if type(v) is not RuntimeError:
            self.res.violate(sigbase + ("wrong_exception", type(v).__name__),
                             "%s raised %s (%s) instead of RuntimeError (op#%d)" % (kind, type(v).__name__, v, h.current_op_index))
        outcome["exc"] = None
        if kind == "other_store_token" and self.sib_tok is not None:
            sib, sd, tok, who2 = self.sib_tok
            self.sib_tok = None
            # the reservation on the other store must still be there: withdrawing it there is a valid call
            st2, v2 = h.as_actor(who2, sib.cancel_put if sd == "p" else sib.cancel_get, tok)
            if st2 == "exc":
                self.res.violate(sigbase + ("side_effect", "other_store"),
                                 "the rejected call removed the caller's reservation on the OTHER store: withdrawing it there raised %s: %s (op#%d)" % (
                                     type(v2).__name__, v2, h.current_op_index))
                raise Abort("c07_desync")
        after = snapshot(h)
        if after != before:
            self.res.violate(sigbase + ("side_effect",),
                             "rejected %s changed the observable state: before=%s after=%s (op#%d)" % (
                                 kind, before[2:], after[2:], h.current_op_index))
            raise Abort("c07_desync")
        return True

    def after_op(self, h, op, outcome):
        if op[0] == "mis":
            return
        v = outcome.get("value")
        self.trace.append((h.current_op_index, op[0], outcome["status"], getattr(v, "id", v if isinstance(v, bool) else None),
                           tuple(t.ev.triggered for t in h.toks), tuple(x.id for x in h.subj.ready()),
                           tuple(x.id for x in h.subj.in_transit()), h.env.now, self.last_mis))


def run_case(case):
    res = Result()
    oa = ProtocolOracle(res, True)
    ha = StoreRun(case, res, [oa])
    ha.run()
    res.classes.append(case["subject"]["cls"])
    if res.aborted:
        res.classes.append("aborted:" + res.aborted)
    if not res.violations and not res.aborted and any(op[0] == "mis" for op in case["ops"]):
        res2 = Result()
        ob = ProtocolOracle(res2, False)
        hb = StoreRun(case, res2, [ob])
        hb.run()
        ta = [x[:-1] for x in oa.trace]
        tb = [x[:-1] for x in ob.trace]
        if ta != tb:
            n = min(len(ta), len(tb))
            i = next((j for j in range(n) if ta[j] != tb[j]), n)
            last = oa.trace[min(i, len(oa.trace) - 1)][-1] if oa.trace else None
            res.violate((case["subject"]["cls"], last[0] if last else "?", "put" if last and last[1] == "p" else "get" if last and last[1] == "g" else "cancel", "later_side_effect"),
                        "history with the rejected calls deleted diverges at executed op %d: with=%s without=%s" % (
                            i, ta[i] if i < len(ta) else None, tb[i] if i < len(tb) else None))
    return res


def enumerate_cases(tier, shard, nshards):
    mis = [["mis", k, 0, 0, side] for k in range(9) for side in (0, 1)]
    alphabet = [["rp", 0, 0], ["rg", 0, 0, 0], ["put", 0, 0, 0], ["get", 0], ["cp", 0], ["cg", 0], ["adv", 0]]
    return gen_store.enumerate_histories(shard, nshards, alphabet=alphabet, max_len=4, extra_ops=mis)


def enum_definition(tier):
    return ("all histories of length 1..4 over {rp, rg, put(delay 0), get, cancel-put, cancel-get, advance 1} plus the 9 misuse kinds x "
            "{put side, get side}, on 16 subjects (store classes / edges x capacity 1,2; buffer FIFO and LIFO), one actor + one stranger")
