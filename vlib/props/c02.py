"""C02 - stores conserve items; every granted retrieval is backed by its own distinct item."""
from ..common import Result
from ..harness_store import StoreRun, Oracle
from .. import gen_store

PROP = "C02"
ENGINE = "S"
RULE = ("Engine S histories (as C01) biased to several simultaneously outstanding retrieval reservations, cancels of "
        "granted retrievals, arrivals while reservations are held and gets in arbitrary token order, FIFO and LIFO. "
        "Oracle after every call and kernel event, by object identity: items put = items got + items inside, no "
        "object inside twice; every get with a granted own token returns one object that was put and not returned "
        "before and raises nothing. Non-trivial: >=2 granted retrieval tokens outstanding at once and, before they "
        "were used, a granted get was cancelled, a new item became available, or gets ran out of grant order.")
ASSUMPTIONS = ["items inside are read from the public lists items / ready_items",
               "acting as a process by setting env._active_proc"]

WEIGHTS = {"rp": 6, "rg": 7, "put": 7, "get": 5, "cp": 1, "cg": 3, "settle": 1, "adv": 7, "peek": 1}
CLASSES = gen_store.ALL_PLAIN + gen_store.BELTS


def examples(tier):
    return 32000 if tier == "quick" else 640000


def strategy(tier):
    return gen_store.case(CLASSES, WEIGHTS, max_ops=40, macros=5, extra=7)


class ConservationOracle(Oracle):
    def __init__(self, res):
        self.res = res
        self.multi = False          # >=2 granted get tokens right now
        self.avail_ids = set()

    def sig(self, h, clause, *more):
        return (h.subj.cls, h.subj.mode if h.subj.is_buffer else "-", clause) + more

    def _check(self, h, where):
        S = h.subj
        inside = S.in_transit() + S.ready()
        ids = [id(x) for x in inside]
        if len(ids) != len(set(ids)):
            self.res.violate(self.sig(h, "duplicated_inside"), "an object is held twice %s" % where)
        expect = set(id(x) for x in h.put_items) - set(id(x) for x in h.got_items)
        got = set(ids)
        if got - expect:
            self.res.violate(self.sig(h, "invented"), "store holds an object that was not put or was already returned, %s" % where)
        if expect - got:
            self.res.violate(self.sig(h, "lost"), "%d put object(s) neither inside nor returned, %s (t=%s op#%d)" % (
                len(expect - got), where, h.env.now, h.current_op_index))
        # non-trivial bookkeeping
        g = [t for t in h.toks if t.side == "g" and t.state == "granted"]
        now_multi = len(g) >= 2
        avail = set(id(x) for x in S.ready())
        if self.multi and now_multi and (avail - self.avail_ids):
            self.res.nontrivial = True
        self.avail_ids = avail
        self.multi = now_multi

    def after_op(self, h, op, outcome):
        k = op[0]
        if k == "get":
            t = outcome["tok"]
            if outcome["status"] == "exc":
                e = outcome["exc"]
                self.res.violate(self.sig(h, "granted_get_failed", type(e).__name__),
                                 "get with a granted, un-cancelled own token raised %s: %s" % (type(e).__name__, e))
                return      # the case ends here; what the failed call did to the store is unknown
            else:
                v = outcome["value"]
                prev = h.got_items[:-1]
                if not any(v is x for x in h.put_items):
                    self.res.violate(self.sig(h, "invented"), "get returned an object that was never put: %r" % (v,))
                elif any(v is x for x in prev):
                    self.res.violate(self.sig(h, "duplicated"), "get returned %r a second time" % (v,))
                if self.multi:
                    older = [x for x in h.toks if x.side == "g" and x.state == "granted" and x.obs_grant < t.obs_grant]
                    if older:
                        self.res.nontrivial = True
        if k == "cg" and outcome.get("was") == "granted" and self.multi:
            self.res.nontrivial = True
        self._check(h, "after " + k)

    def after_kernel_event(self, h):
        self._check(h, "after kernel event")


shrink_candidates = gen_store.shrink_candidates


def run_case(case):
    res = Result()
    h = StoreRun(case, res, [ConservationOracle(res)])
    h.run()
    s = case["subject"]
    res.classes = [s["cls"] + ("/" + s["mode"] if "mode" in s else "")]
    if res.aborted:
        res.classes.append("aborted:" + res.aborted)
    return res


def enumerate_cases(tier, shard, nshards):
    return gen_store.enumerate_histories(shard, nshards)


def enum_definition(tier):
    return gen_store.enum_definition()


is_enumerated = gen_store.is_enumerated
