"""C11 - buffer delay exact; can_put / can_get exact; occupancy counts in-transit and ready items."""
from ..common import Result, close, leq
from ..harness_store import StoreRun, Oracle, Tok
from .. import gen_store

PROP = "C11"
ENGINE = "S"
RULE = ("Engine S histories on Buffer and Fleet edges (FIFO/LIFO, capacity 1-4, delay constant / callable / generator "
        "incl. 0) with probe operations at arbitrary points, also while granted-unused and pending reservations exist on "
        "both sides. Oracle: (delay, Buffer) the delay source is consulted exactly once per put; an item put at t with "
        "drawn delay d is never in ready_items() before t+d and is there (or already taken) at the end of instant t+d; "
        "(queries) v = can_put() then a probe reserve_put by a fresh process: probe.triggered == v (probe is cancelled "
        "afterwards); same for can_get; (occupancy) occupancy()/get_occupancy() == items put - items got after every "
        "operation and kernel event. Non-trivial: a probe made while >=1 granted-unused reservation existed on the probed "
        "side, or a zero delay, or two items due in the same instant.")
ASSUMPTIONS = ["tolerance 1e-9 relative on times (DESIGN R3)"]

WEIGHTS = {"rp": 7, "rg": 6, "put": 7, "get": 4, "cp": 2, "cg": 2, "settle": 1, "adv": 6, "probe_put": 5, "probe_get": 5, "peek": 2}
CLASSES = ["Buffer", "Buffer", "Fleet"]


def examples(tier):
    return 24000 if tier == "quick" else 480000


def strategy(tier):
    return gen_store.case(CLASSES, WEIGHTS, max_ops=40, macros=4, extra=6)


shrink_candidates = gen_store.shrink_candidates


class ExactOracle(Oracle):
    def __init__(self, res):
        self.res = res
        self.due = {}       # id(item) -> (t_put, d)
        self.nputs = 0

    def sig(self, h, clause):
        S = h.subj
        return (S.cls, S.mode if S.is_buffer else "-", clause)

    def custom_op(self, h, op, outcome):
        if op[0] not in ("probe_put", "probe_get"):
            return False
        S = h.subj
        side = "p" if op[0] == "probe_put" else "g"
        stranger = h.n_actors
        st_, v = h.as_actor(stranger, S.edge.can_put if side == "p" else S.edge.can_get)
        if st_ == "exc":
            self.res.violate(self.sig(h, "can_put" if side == "p" else "can_get") + (type(v).__name__,),
                             "%s raised %s: %s" % (op[0][6:], type(v).__name__, v))
            outcome["skipped"] = True
            return True
        if any(t.state == "granted" and t.side == side for t in h.toks):
            self.res.nontrivial = True
        st2, ev = h.as_actor(stranger, S.reserve_put, 0) if side == "p" else h.as_actor(stranger, S.reserve_get, 0, None)
        if st2 == "exc":
            outcome.update(status="exc", exc=ev)
            return True
        trig = ev.triggered
        if bool(v) != bool(trig):
            held = S.held()
            self.res.violate(self.sig(h, "can_put" if side == "p" else "can_get"),
                             "%s() returned %r but a reservation issued in the same state was %s (held=%d ready=%d "
                             "granted_put=%d granted_get=%d capacity=%d, op#%d t=%s)" % (
                                 "can_put" if side == "p" else "can_get", v, "granted" if trig else "not granted", held,
                                 len(S.ready()), len(h.granted("p")), len(h.granted("g")), S.capacity, h.current_op_index,
                                 h.env.now))
        st3, r = h.as_actor(stranger, S.cancel_put if side == "p" else S.cancel_get, ev)
        if st3 == "exc":
            outcome.update(status="exc", exc=r)
        return True

    def before_put(self, h, t, item, delay):
        self.nlog = len(h.subj.delay_log)

    def after_op(self, h, op, outcome):
        S = h.subj
        if op[0] == "put" and outcome["status"] == "ok":
            item = outcome["item"]
            if S.cls == "Buffer":
                kind = S.spec.get("delay_kind", "const")
                if kind != "const":
                    n = len(S.delay_log) - self.nlog
                    if n != 1:
                        self.res.violate(self.sig(h, "delay_draws"),
                                         "delay source consulted %d times for one put (op#%d)" % (n, h.current_op_index))
                    d = S.delay_log[-1][1] if S.delay_log else 0
                else:
                    d = S.spec.get("delay", 0)
                self.due[id(item)] = (h.env.now, d, item)
                if d == 0:
                    self.res.nontrivial = True
                same = [1 for (t0, d0, _) in self.due.values() if close(t0 + d0, h.env.now + d)]
                if len(same) >= 2:
                    self.res.nontrivial = True
        self.check(h, "after " + op[0])

    def after_kernel_event(self, h):
        self.check(h, "after kernel event")

    def check(self, h, where):
        S = h.subj
        now = h.env.now
        # occupancy
        occ_fn = S.edge.occupancy if S.cls == "Buffer" else S.edge.get_occupancy
        occ = occ_fn()
        expect = len(h.put_items) - len(h.got_items)
        if occ != expect:
            self.res.violate(self.sig(h, "occupancy"), "occupancy()=%s but %d items were put and %d taken (%s, t=%s)" % (
                occ, len(h.put_items), len(h.got_items), where, now))
        if S.cls == "Buffer":
            ready = S.edge.ready_items()
            for x in ready:
                rec = self.due.get(id(x))
                if rec and now < rec[0] + rec[1]:   # same float arithmetic as the kernel (now + delay): exact
                    self.res.violate(self.sig(h, "early_available"),
                                     "item %s put at %s with delay %s is in ready_items() at %s (%s)" % (x.id, rec[0], rec[1], now, where))

    def end_of_instant(self, h):
        S = h.subj
        if S.cls != "Buffer":
            return
        now = h.env.now
        ready = set(id(x) for x in S.edge.ready_items())
        got = set(id(x) for x in h.got_items)
        for i, (t0, d, item) in self.due.items():
            if i in got or i in ready:
                continue
            if t0 + d <= now:   # exact: the kernel schedules at t0 + d computed identically
                self.res.violate(self.sig(h, "late_available"),
                                 "item %s put at %s with delay %s is still not retrievable at the end of instant %s" % (
                                     item.id, t0, d, now))


def run_case(case):
    res = Result()
    h = StoreRun(case, res, [ExactOracle(res)])
    h.run()
    s = case["subject"]
    res.classes.append(s["cls"] + ("/" + s.get("delay_kind", "")))
    if res.aborted:
        res.classes.append("aborted:" + res.aborted)
    return res
