"""C10 - work is never stranded: nodes take input and deliver output without delay, and withdraw the
requests they do not use."""
from ..common import Result
from ..harness_factory import FactoryRun, FOracle
from ..fanalysis import NodeBook, edge_avail, edge_room, policy_class
from .. import gen_factory

PROP = "C10"
ENGINE = "F"
RULE = ("Engine F: generated factories of all topologies incl. finite inputs run on to quiescence, generated construction "
        "orders and delay grids that create many same-instant ties. Oracle at the end of every simulated instant (bounded "
        "form of the liveness statement): (in) a node that is set up and has a free worker holds a live retrieval request "
        "on every in-edge its policy names (FIRST_AVAILABLE: all; otherwise exactly the chosen one) and no such edge has an "
        "available unreserved item; no retrieval request of a machine or sink is granted and still unused; (out) no space "
        "request of a blocking node is granted and still unused; (in, splitters and combiners) no retrieval request is still pending "
        "while its edge holds an available unreserved item, and a combiner (like a machine or a sink) holds no granted, unused retrieval; (sink) no in-edge of a sink holds an available unreserved "
        "item; (tokens) a machine/splitter/sink never holds more than one live retrieval request per in-edge, and a node "
        "holds no live space request unless it holds a finished item; at quiescence no granted-unused token exists. "
        "Non-trivial: a node with >= 2 in- or out-edges under FIRST_AVAILABLE had two of its requests granted in the same "
        "instant at least once (so a granted request had to be cancelled).")
RULE += (" Two in ten flow-shaped factories also contain rework loops (a machine feeding itself or a machine of an earlier layer through a "
         "Buffer / Fleet edge with a strictly positive delay / transit time, so no zero-time cycle exists); machine oracles work per visit, not per item.")
ASSUMPTIONS = ["liveness is decided only in its bounded form: not stranded at the end of an instant / at quiescence",
               "ROUND_ROBIN / constant / callable policies legitimately leave items waiting on the edges they did not choose"]

PROFILE = {"cycles": 2, "conveyors": True, "conveyor_to_sink": True, "pack": 2, "finite": 5}


def examples(tier):
    return 8000 if tier == "quick" else 240000


def strategy(tier):
    return gen_factory.factories(PROFILE)


shrink_candidates = gen_factory.shrink_candidates


class StrandOracle(FOracle):
    def __init__(self, res, book):
        self.res = res
        self.book = book
        self.dead = set()
        self.same_instant_double = False

    def v(self, nid, sig, msg):
        if nid in self.dead:
            return
        self.dead.add(nid)
        self.res.violate(sig, msg)

    def start(self, f):
        self.kinds = {nid: f.node_spec[nid]["type"] for nid in f.nodes}
        self.setup_done = {}
        for nid, ns in f.node_spec.items():
            self.setup_done[nid] = ns.get("setup", 0) if ns["type"] in ("Machine", "Splitter", "Combiner") else 0

    def on_entry(self, f, e):
        # non-trivial: a cancel of an already granted token
        if e.exc is None and e.op in ("cp", "cg") and e.was_triggered:
            self.same_instant_double = True

    def end_of_instant(self, f):
        now = f.env.now
        live = {}
        for t in f.toks.values():
            if t.state in ("pending", "granted"):
                live.setdefault((t.node, t.side), []).append(t)
        for nid, kind in self.kinds.items():
            if nid in self.dead:
                continue
            ns = f.node_spec[nid]
            node = f.nodes[nid]
            gets = live.get((nid, "g"), [])
            puts = live.get((nid, "p"), [])
            # ---------------- output side
            if kind != "Sink" and ns.get("blocking", True):
                unused = [t for t in puts if t.state == "granted"]
                if unused:
                    self.v(nid, (kind, "out", policy_class(ns.get("out_sel", "-")), "stranded_out"),
                           "%s: space request on %s granted at %s is unused at the end of instant %s (the finished item was not pushed)" % (
                               nid, unused[0].edge, unused[0].t_grant, now))
                    continue
                # a pending space request although the edge has room: the finished item is held back
                stuck = [t for t in puts if t.state == "pending" and f.edge_spec[t.edge]["kind"] in ("Buffer", "Fleet")
                         and edge_room(f, t.edge) > 0]
                if stuck:
                    self.v(nid, (kind, "out", policy_class(ns.get("out_sel", "-")), "stranded_out", "room"),
                           "%s waits with a finished item for %s (request of t=%s) although that edge has room for %d at the end of instant %s" % (
                               nid, stuck[0].edge, stuck[0].t_issue, edge_room(f, stuck[0].edge), now))
                    continue
            # ---------------- input side
            if kind in ("Machine", "Sink", "Combiner"):
                # (a splitter is the one node that reserves before it has a worker: it may hold a grant while it is blocked)
                unused = [t for t in gets if t.state == "granted"]
                if unused:
                    self.v(nid, (kind, "in", policy_class(ns.get("in_sel", "FIRST_AVAILABLE")), "stranded_in"),
                           "%s: retrieval request on %s granted at %s is unused at the end of instant %s (the item was not taken)" % (
                               nid, unused[0].edge, unused[0].t_grant, now))
                    continue
            if kind in ("Splitter", "Combiner"):
                # a node that is asking an in-edge (pending retrieval request = it can take an item and its policy allows that
                # edge) while the edge holds an available item that nobody has reserved: the item is not taken at that instant
                stuck = [t for t in gets if t.state == "pending" and f.edge_spec[t.edge]["kind"] in ("Buffer", "Fleet")
                         and edge_avail(f, t.edge) > 0]
                if stuck:
                    self.v(nid, (kind, "in", policy_class(ns.get("in_sel", "FIRST_AVAILABLE")), "stranded_in", "request_pending"),
                           "%s: retrieval request on %s (issued at t=%s) is still pending at the end of instant %s although that edge holds "
                           "%d available unreserved item(s)" % (nid, stuck[0].edge, stuck[0].t_issue, now, edge_avail(f, stuck[0].edge)))
                    continue
            if kind in ("Machine", "Splitter", "Sink"):
                per_edge = {}
                for t in gets:
                    per_edge[t.edge] = per_edge.get(t.edge, 0) + 1
                dup = [e for e, c in per_edge.items() if c > 1]
                if dup:
                    self.v(nid, (kind, "in", policy_class(ns.get("in_sel", "FIRST_AVAILABLE")), "leaked_token"),
                           "%s holds %d live retrieval requests on %s at the end of instant %s" % (nid, per_edge[dup[0]], dup[0], now))
                    continue
            if kind == "Sink":
                for eid in f.in_edge_ids(nid):
                    if edge_avail(f, eid) > 0:
                        self.v(nid, ("Sink", "in", "FIRST_AVAILABLE", "sink"),
                               "sink %s: in-edge %s holds %d available unreserved item(s) at the end of instant %s" % (
                                   nid, eid, edge_avail(f, eid), now))
                        break
                    if not any(t.edge == eid for t in gets):
                        self.v(nid, ("Sink", "in", "FIRST_AVAILABLE", "no_request"),
                               "sink %s has no live retrieval request on in-edge %s at the end of instant %s" % (nid, eid, now))
                        break
                continue
            if kind == "Machine":
                if now < self.setup_done[nid]:
                    continue
                resident = self.book.held[nid] - node.stats["num_item_discarded"]
                if resident < node.work_capacity:
                    pol = ns.get("in_sel", "FIRST_AVAILABLE")
                    if pol == "FIRST_AVAILABLE":
                        for eid in f.in_edge_ids(nid):
                            if not any(t.edge == eid for t in gets):
                                self.v(nid, ("Machine", "in", "FIRST_AVAILABLE", "no_request"),
                                       "%s has a free worker (%d/%d) but no live retrieval request on in-edge %s at the end of instant %s" % (
                                           nid, resident, node.work_capacity, eid, now))
                                break
                            if edge_avail(f, eid) > 0:
                                self.v(nid, ("Machine", "in", "FIRST_AVAILABLE", "stranded_in"),
                                       "%s has a free worker (%d/%d) while in-edge %s holds %d available unreserved item(s) at the end of instant %s" % (
                                           nid, resident, node.work_capacity, eid, edge_avail(f, eid), now))
                                break
                    else:
                        if len(gets) != 1:
                            self.v(nid, ("Machine", "in", policy_class(pol), "no_request" if not gets else "leaked_token"),
                                   "%s has a free worker (%d/%d) and %d live retrieval requests at the end of instant %s (expected exactly one)" % (
                                       nid, resident, node.work_capacity, len(gets), now))
                        elif edge_avail(f, gets[0].edge) > 0:
                            self.v(nid, ("Machine", "in", policy_class(pol), "stranded_in"),
                                   "%s waits on %s which holds %d available unreserved item(s) at the end of instant %s" % (
                                       nid, gets[0].edge, edge_avail(f, gets[0].edge), now))
            # ---------------- tokens: no live space request without a finished item
            if kind == "Machine" and ns.get("blocking", True):
                if puts and self.book.held[nid] - node.stats["num_item_discarded"] <= 0:
                    self.v(nid, ("Machine", "out", policy_class(ns.get("out_sel", "-")), "leaked_token"),
                           "%s holds %d live space request(s) but no item at the end of instant %s" % (nid, len(puts), now))
            if kind == "Source":
                st_ = node.stats
                pending_item = st_["num_item_generated"] - len(self.book.pushes[nid]) - st_["num_item_discarded"]
                if puts and pending_item <= 0:
                    self.v(nid, ("Source", "out", policy_class(ns.get("out_sel", "-")), "leaked_token"),
                           "%s holds %d live space request(s) but no generated item waits at the end of instant %s" % (nid, len(puts), now))

    def finish(self, f):
        self.res.nontrivial = self.same_instant_double
        if f.crashed or f.livelock or f.build_error:
            return
        if getattr(f, "drained_at", None) is not None:
            g = [t for t in f.toks.values() if t.state == "granted"]
            if g:
                self.res.violate(("-", "-", "-", "leaked_token_at_quiescence"),
                                 "at quiescence a granted token on %s (node %s) is neither used nor cancelled" % (g[0].edge, g[0].node))


def _prep(spec):
    from .c03 import _drainable
    if _drainable(spec):
        spec = dict(spec, drain={"quiet": 60.0, "t_max": 2000.0})
    return spec


def run_case(case):
    res = Result()
    book = NodeBook()
    o = StrandOracle(res, book)
    f = FactoryRun(_prep(case), res, [book, o])
    f.run()
    res.classes += ["shape:" + case.get("shape", "?")]
    if f.crashed or f.build_error:
        res.aborted = "crash:%s" % type(f.crashed or f.build_error).__name__
    if f.livelock:
        res.aborted = "livelock"
    return res
