"""C12 - conveyors preserve order, spacing, capacity and minimum / exact travel time."""
from ..common import Result, leq
from ..common import close as _close

_SCALE = [0.0]


def close(a, b):
    # instants measured relative to a large clock offset t0 carry the float spacing at t0 (about 2e-16 * t0 each)
    return _close(a, b) or abs(a - b) <= 64 * 2.3e-16 * _SCALE[0]

from ..harness_conv import ConvRun
from .. import gen_conv

PROP = "C12"
ENGINE = "K"
RULE = ("Engine K: a continuous conveyor (length, item length, speed from a grid incl. non-integer lengths and lengths that "
        "are not a multiple of the item length; accumulating 0/1) or a slotted conveyor (capacity 1-6, slot delay, "
        "accumulating 0/1) between a scripted producer (regular / bursts of zeros / irregular real waits between admission "
        "requests; puts at the grant instant or, in a quarter of the cases, after a loading time) and a scripted consumer (always waiting = free flow, late = one long stall, "
        "alternating, irregular; gets at the grant instant, or - a quarter of the cases - withdraws some granted retrievals within the instant "
        "of the grant like a fan-in node that picked another edge, and asks again later; the producer may withdraw granted admissions "
        "the same way). Validity predicates on put instants p_i, offer instants r_i "
        "(first instant in ready_items) and get instants g_i: items are got in entry order; occupancy <= capacity after "
        "every kernel event; p_(i+1) - p_i >= item_length/speed (slot delay), and on a non-accumulating continuous belt the same after "
        "subtracting the time the belt stood still in between (an item waited at the exit); r_i - p_i >= length/speed (capacity*delay); "
        "if no item ever waited (g_i == r_i for all i) then r_i - p_i == length/speed exactly (1e-9 relative); an item whose "
        "predecessors were all taken is offered before the run ends. Non-trivial: "
        ">= 3 items on the belt at once and (irregular arrivals or a stall).")
ASSUMPTIONS = ["offer instant = first kernel event after which the item is in ready_items (or its get instant if it is taken in that same event)",
               "tolerance 1e-9 relative on time differences",
               "belt-travel spacing on non-accumulating continuous belts: standstill = union of [offer, get) of items that waited at the exit"]


def examples(tier):
    return 24000 if tier == "quick" else 480000


F_PROFILE = {"conveyors": True, "conveyor_to_sink": True, "conveyor_weight": 3, "pack": 0, "finite": 3,
             "edge_kinds": ["Buffer", "Buffer", "Fleet"]}


def strategy(tier):
    from hypothesis import strategies as st
    from .. import gen_factory
    k = gen_conv.cases(holds=True, ccancels=True)
    return st.one_of(k, k, k, k, k, gen_factory.factories(F_PROFILE))


def shrink_candidates(case):
    if "nodes" in case:
        from .. import gen_factory
        yield from gen_factory.shrink_candidates(case)
    else:
        yield from gen_conv.shrink_candidates(case)


def flag(case):
    c = case["conv"]
    if c["kind"] == "continuous":
        q = c["L"] / c["il"]
        if abs(q - round(q)) > 1e-9 or abs(c["L"] - round(c["L"])) > 1e-9:
            return "length_not_multiple"
    return "plain"


def run_factory(case):
    """conveyors inside generated factories (multi-worker machines pushing in one instant, fan-in): the same
    predicates from the outside ledger; the offer instant is not visible there, get - put >= travel is necessary"""
    from ..harness_factory import FactoryRun, FOracle

    class Cap(FOracle):
        over = None

        def after_kernel_event(self, f):
            if self.over is None:
                for eid, es in f.edge_spec.items():
                    if es["kind"].endswith("Conveyor") and len(f.edge_items(eid)) > f.edge_capacity(eid):
                        self.over = (eid, f.env.now, len(f.edge_items(eid)))
    res = Result()
    cap = Cap()
    f = FactoryRun(case, res, [cap])
    f.run()
    res.classes = ["factory"]
    if f.crashed or f.build_error or f.livelock:
        res.aborted = "crash"
    convs = [e for e in case["edges"] if e["kind"].endswith("Conveyor")]
    multi = False
    for es in convs:
        eid = es["id"]
        kind = "continuous" if es["kind"] == "ContinuousConveyor" else "slotted"
        acc = es.get("acc", 1)
        if kind == "continuous":
            slot, travel = es["il"] / es["v"], es["L"] / es["v"]
            q = es["L"] / es["il"]
            fl = "length_not_multiple" if abs(q - round(q)) > 1e-9 or abs(es["L"] - round(es["L"])) > 1e-9 else "in_factory"
        else:
            slot, travel = es["delay"], es["capacity"] * es["delay"]
            fl = "in_factory"
        puts = [(e.t, e.item) for e in f.ledger if e.edge == eid and e.op == "put" and e.exc is None]
        gets = [(e.t, e.item) for e in f.ledger if e.edge == eid and e.op == "get" and e.exc is None]
        if len(puts) >= 3:
            multi = True
        if cap.over and cap.over[0] == eid:
            res.violate((kind, acc, "capacity", fl), "%d items on %s at t=%s, capacity %d" % (cap.over[2], eid, cap.over[1], f.edge_capacity(eid)))
        for j, (t, it) in enumerate(gets):
            if it is not puts[j][1]:
                res.violate((kind, acc, "order", fl), "%s: item %s left at %s but %s entered before it" % (eid, it.id, t, puts[j][1].id))
                break
        for (a, b) in zip(puts, puts[1:]):
            gap = b[0] - a[0]
            if gap < slot and not close(gap, slot):
                res.violate((kind, acc, "spacing", fl), "%s: %s and %s entered at %s and %s: %.6g apart, one item length of travel is %.6g" % (
                    eid, a[1].id, b[1].id, a[0], b[0], gap, slot))
                break
        pmap = {id(it): t for (t, it) in puts}
        for (t, it) in gets:
            tr = t - pmap.get(id(it), t)
            if tr < travel and not close(tr, travel):
                res.violate((kind, acc, "min_travel", fl), "%s: %s entered at %s and was taken at %s: %.6g < belt travel time %.6g" % (
                    eid, it.id, pmap[id(it)], t, tr, travel))
                break
    res.nontrivial = multi
    return res


def run_case(case):
    _SCALE[0] = float(case.get("t0") or 0.0)
    if "nodes" in case:
        return run_factory(case)
    res = Result()
    r = ConvRun(case).run()
    c = case["conv"]
    kind, acc = c["kind"], c.get("acc", 1)
    fl = flag(case)
    res.classes = ["%s/acc=%d" % (kind, acc), fl]
    if r.crashed is not None or r.livelock:
        res.aborted = "crash:%s" % (type(r.crashed).__name__ if r.crashed else "livelock")
        res.classes.append(res.aborted)
    items = r.items
    p = r.t_put
    got = r.t_get
    # order
    for j, (t, it) in enumerate(got):
        if j < len(items) and it is not items[j]:
            res.violate((kind, acc, "order", fl), "item #%d (%s) left the conveyor at %s but item #%d (%s) was next in entry order" % (
                items.index(it) if it in items else -1, it.id, t, j, items[j].id))
            break
    # capacity
    if r.occ_gt_cap is not None:
        res.violate((kind, acc, "capacity", fl), "%d items on the conveyor at t=%s, capacity %d" % (r.occ_gt_cap[1], r.occ_gt_cap[0], r.capacity))
    # spacing
    for i in range(len(p) - 1):
        gap = p[i + 1] - p[i]
        if gap < r.slot_time and not close(gap, r.slot_time):
            res.violate((kind, acc, "spacing", fl), "items #%d and #%d entered at %s and %s: %.6g apart, one item length of travel is %.6g" % (
                i, i + 1, p[i], p[i + 1], gap, r.slot_time))
            break
    # spacing in belt travel: a non-accumulating belt stands still while an item waits at its exit, so between two
    # entries the belt must have *moved* one item length: (gap - standstill time inside the gap) >= item length / speed
    # (continuous belt only: the slotted belt does not stand still during a stall at all - known finding K2, owned by C13 -
    # so its standstill time cannot be read off the offers)
    if kind == "continuous" and not acc and not res.violations and r.crashed is None and not r.livelock:
        gm = {id(it): t for (t, it) in got}
        stalls = []
        for it in items:
            ro = r.t_offer.get(id(it))
            if ro is None:
                continue
            g = gm.get(id(it), float("inf"))
            if g > ro and not close(g, ro):
                stalls.append((ro, g))
        stalls.sort()
        merged = []
        for (s_, e) in stalls:
            if merged and s_ <= merged[-1][1]:
                merged[-1][1] = max(merged[-1][1], e)
            else:
                merged.append([s_, e])
        stalls = merged
        # ... and no item is offered before the belt has moved its full length under it: time since entry minus standstill
        for i, it in enumerate(items):
            ro = r.t_offer.get(id(it))
            if ro is None or i >= len(p):
                continue
            still = sum(max(0.0, min(ro, e) - max(p[i], s_)) for (s_, e) in stalls)
            moved = (ro - p[i]) - still
            if fl != "length_not_multiple" and moved < r.travel_nominal and not close(moved, r.travel_nominal) and not res.violations:
                res.violate((kind, acc, "min_travel_moving", fl),
                            "item #%d entered at %s and was offered at %s; the belt stood still for %.6g of that, so it carried the item for "
                            "%.6g < belt length / speed = %.6g" % (i, p[i], ro, still, moved, r.travel_nominal))
                break
        for i in range(len(p) - 1):
            a, b = p[i], p[i + 1]
            still = sum(max(0.0, min(b, e) - max(a, s_)) for (s_, e) in stalls)
            moved = (b - a) - still
            if moved < r.slot_time and not close(moved, r.slot_time):
                res.violate((kind, acc, "spacing_travel", fl),
                            "items #%d and #%d entered at %s and %s; the belt stood still for %.6g of that (an item waited at the exit), "
                            "so it moved for %.6g < one item length of travel %.6g" % (i, i + 1, a, b, still, moved, r.slot_time))
                break
    # travel
    stalled = False
    waited = False
    offers = []
    for i, it in enumerate(items):
        ro = r.t_offer.get(id(it))
        if ro is None:
            continue
        offers.append((i, ro))
        tr = ro - p[i]
        if tr < r.travel_nominal and not close(tr, r.travel_nominal):
            res.violate((kind, acc, "min_travel", fl), "item #%d entered at %s and was offered at %s: %.6g < belt travel time %.6g" % (
                i, p[i], ro, tr, r.travel_nominal))
            break
    # an item that entered but is still not offered when the run ends (T lies far beyond the scripts) is stuck on the belt.
    # Only judged when every earlier item was taken (otherwise it legitimately waits behind a stalled head).
    if r.crashed is None and not r.livelock:
        taken = set(id(it) for (_t, it) in got)
        for i, it in enumerate(items):
            if id(it) not in r.t_offer:
                if all(id(x) in taken for x in items[:i]) and len(case["consumer"]) > len(got):
                    fl_no = fl
                    if kind == "continuous" and acc and abs((c["il"] / c["v"]) * 48 - round((c["il"] / c["v"]) * 48)) > 1e-9:
                        fl_no = "offgrid"       # K3 in its extreme form (see C13): slot time off every time grid
                    res.violate((kind, acc, "never_offered", fl_no),
                                "item #%d entered at %s and is still not offered at the end of the run (t=%s) although every item before it "
                                "was taken and the destination is waiting" % (i, p[i] if i < len(p) else None, r.env.now))
                break
    gmap = {id(it): t for (t, it) in got}
    for i, ro in offers:
        g = gmap.get(id(items[i]))
        if g is None or not close(g, ro):
            waited = True
    if offers and not waited and len(got) == len(items) and not res.violations:
        for i, ro in offers:
            tr = ro - p[i]
            if not close(tr, r.travel_nominal):
                res.violate((kind, acc, "exact_travel", fl), "free flow: item #%d entered at %s, offered at %s: travel %.9g, belt length/speed = %.9g" % (
                    i, p[i], ro, tr, r.travel_nominal))
                break
    irregular = len(set(case["producer"])) > 1
    res.nontrivial = bool(r.max_occ >= 3 and (irregular or waited))
    if waited:
        res.classes.append("stall")
    return res
