"""C03 - flow items are conserved across the whole factory."""
from ..common import Result
from ..harness_factory import FactoryRun, FOracle, BIG
from .. import gen_factory

PROP = "C03"
ENGINE = "F"
RULE = ("Engine F: generated factories (1-3 sources, 0-2 machine layers with fan-in/fan-out, pack/unpack lines, 1-3 sinks; "
        "Buffer/Fleet/conveyor edges; blocking and non-blocking nodes; all policies; generated construction order). Oracle "
        "after every kernel event, from an outside ledger of every store put/get: every item is in exactly one place "
        "(an item found in an edge is where the ledger says, no edge holds an item twice or an item located elsewhere, "
        "every put comes from the node that holds the item, every get takes an item the edge holds); per source "
        "generated - pushed - discarded in {0,1}; per node 0 <= pulled - pushed - discarded (<= work_capacity for a machine); an item is in at most one "
        "pallet. Finite inputs without combiner and with FIRST_AVAILABLE fan-in are run on to quiescence: everything "
        "generated is received or discarded. Non-trivial: fan-in, fan-out or a pack line, and some edge was full at least once.")
RULE += (" Three in ten flow-shaped factories also contain rework loops (a machine feeding itself or a machine of an earlier layer through a "
         "Buffer / Fleet edge with a strictly positive delay / transit time, so no zero-time cycle exists); machine oracles work per visit, not per item. "
         "One in ten factories is a chain or a rows x cols mesh built by the helpers of factorysimpy.constructs (the harness hands them factories "
         "as node / edge classes and checks the wiring they produce against the documented topology).")
ASSUMPTIONS = ["items become visible at their first put; the source-side term uses the source's counters",
               "a discarded pallet keeps its packed items (they stay 'packed')"]

PROFILE = {"conveyors": True, "conveyor_to_sink": True, "pack": 3, "cycles": 3, "constructs": 1}


def examples(tier):
    return 6400 if tier == "quick" else 192000


def _drainable(spec):
    if spec.get("shape") != "flow" or spec.get("cyclic"):
        return False
    n_in = {}
    for e in spec["edges"]:
        n_in[e["dst"]] = n_in.get(e["dst"], 0) + 1
    for n in spec["nodes"]:
        if n["type"] == "Source" and n["iat"].get("finite_after") is None:
            return False
        if n["type"] in ("Machine", "Splitter") and n_in.get(n["id"], 0) >= 2 and n.get("in_sel") != "FIRST_AVAILABLE":
            return False
    return True


def _prep(spec):
    if _drainable(spec):
        spec = dict(spec, drain={"quiet": 60.0, "t_max": 2000.0})
    return spec


def strategy(tier):
    return gen_factory.factories(PROFILE).map(_prep)


def shrink_candidates(spec):
    for c in gen_factory.shrink_candidates(spec):
        c = dict(c)
        c.pop("drain", None)
        yield _prep(c)


class ConservationOracle(FOracle):
    def __init__(self, res):
        self.res = res
        self.loc = {}       # id(item) -> (kind, where)
        self.obj = {}
        self.pallets = {}   # id(pallet) -> pallet
        self.packed_in = {}  # id(item) -> id(pallet)
        self.dead = False
        self.full_seen = False
        self.sp_in = {}
        self.sp_last = {}
        self.exc_seen = None
        self.pending_v = []

    def v(self, sig, msg):
        if self.exc_seen is not None:
            # a store operation has raised inside a node: if that exception goes on to crash the run (C20's domain) the
            # half-done operation is not a conservation verdict; if the run survives it, it is
            self.pending_v.append((sig, msg))
        else:
            self.res.violate(sig, msg)
        self.dead = True

    def on_entry(self, f, e):
        if e.exc is not None and e.op in ("put", "get") and self.exc_seen is None:
            self.exc_seen = (e.t, e.op, e.edge)
        if self.dead or e.exc is not None or e.op not in ("put", "get"):
            return
        it = e.item
        i = id(it)
        es = f.edge_spec[e.edge]
        if e.op == "put":
            N = es["src"]
            ntype = f.node_spec[N]["type"]
            cur = self.loc.get(i)
            if cur is None:
                self.obj[i] = it
                if ntype != "Source":
                    self.v(("invented", ntype), "%s %s put item %s into %s which no source ever pushed (t=%s)" % (
                        ntype, N, it.id, e.edge, e.t))
                    return
            else:
                ok = cur == ("node", N)
                if not ok and i in self.packed_in:
                    ok = self.loc.get(self.packed_in[i]) == ("node", N)
                if not ok:
                    self.v(("duplicate_place", ntype), "%s %s put item %s into %s while the item is at %s (t=%s)" % (
                        ntype, N, it.id, e.edge, cur, e.t))
                    return
            self.packed_in.pop(i, None)
            self.loc[i] = ("edge", e.edge)
            if hasattr(it, "items") and isinstance(getattr(it, "items"), list):
                self.pallets[i] = it
        else:
            N = es["dst"]
            ntype = f.node_spec[N]["type"]
            cur = self.loc.get(i)
            if cur != ("edge", e.edge):
                self.v(("duplicate_place", es["kind"]), "get on %s returned item %s which the ledger locates at %s (t=%s)" % (
                    e.edge, getattr(it, "id", it), cur, e.t))
                return
            self.loc[i] = ("sink", N) if ntype == "Sink" else ("node", N)
            if ntype == "Splitter" and isinstance(getattr(it, "items", None), list):
                u = len(it.items) + 1          # a pallet with n items is n+1 flow items to be emitted or dropped
                self.sp_in[N] = self.sp_in.get(N, 0) + u
                self.sp_last[N] = u

    def after_kernel_event(self, f):
        if self.dead:
            return
        # (a) edges hold exactly what the ledger says
        per_edge = {}
        for i, (kind, where) in self.loc.items():
            if kind == "edge":
                per_edge.setdefault(where, set()).add(i)
        for eid in f.edges:
            actual = [id(x) for x in f.edge_items(eid)]
            aset = set(actual)
            if len(actual) != len(aset):
                self.v(("duplicate_place", f.edge_spec[eid]["kind"]), "edge %s holds an item twice (t=%s)" % (eid, f.env.now))
                return
            exp = per_edge.get(eid, set())
            if aset != exp:
                extra = [getattr(self.obj.get(i), "id", "?") for i in aset - exp]
                miss = [self.obj[i].id for i in exp - aset]
                self.v(("missing" if miss else "duplicate_place", f.edge_spec[eid]["kind"]),
                       "edge %s: items inside %s differ from ledger: unexpected=%s missing=%s (t=%s)" % (
                           eid, [getattr(x, "id", x) for x in f.edge_items(eid)], extra, miss, f.env.now))
                return
            if len(actual) >= f.edge_capacity(eid):
                self.full_seen = True
        # pallets: an item is in at most one pallet
        seen = {}
        for pi, p in self.pallets.items():
            for x in p.items:
                xi = id(x)
                if xi in seen and seen[xi] != pi:
                    self.v(("duplicate_place", "Pallet"), "item %s is packed in two pallets (t=%s)" % (x.id, f.env.now))
                    return
                seen[xi] = pi
                self.packed_in[xi] = pi
        # an item that was packed in a pallet and is no longer in it is being unpacked by the splitter that holds the pallet
        # (it then counts as inside that splitter); anywhere else it has left its only place without arriving in another
        for xi, pi in list(self.packed_in.items()):
            if seen.get(xi) == pi:
                continue
            ploc = self.loc.get(pi)
            if ploc is not None and ploc[0] == "node" and f.node_spec[ploc[1]]["type"] == "Splitter":
                self.loc[xi] = ploc
                del self.packed_in[xi]
                continue
            if xi in seen:
                continue          # moved to another pallet: the "at most one pallet" clause above owns that
            self.v(("missing", "Pallet"), "item %s was packed in pallet %s (now at %s) and is no longer in it, in no edge and in no other "
                   "pallet (t=%s)" % (self.obj[xi].id if xi in self.obj else "?", getattr(self.pallets.get(pi), "id", "?"), ploc, f.env.now))
            return
        # packed items must not be inside an edge on their own
        for xi, pi in self.packed_in.items():
            if self.loc.get(xi, ("?",))[0] == "edge":
                self.v(("duplicate_place", "Pallet"), "item %s is packed in a pallet and inside edge %s (t=%s)" % (
                    self.obj[xi].id, self.loc[xi][1], f.env.now))
                return
        # (b) sources, (c) nodes
        pushed = {}
        held = {}
        for i, (kind, where) in self.loc.items():
            if kind == "node":
                held[where] = held.get(where, 0) + 1
        for e in ():
            pass
        for nid, node in f.nodes.items():
            ns = f.node_spec[nid]
            st_ = node.stats
            if ns["type"] == "Source":
                p = self.pushed_by.get(nid, 0)
                d = st_["num_item_generated"] - p - st_["num_item_discarded"]
                if d not in (0, 1):
                    self.v(("equation", "Source"), "source %s: generated=%d pushed=%d discarded=%d (t=%s)" % (
                        nid, st_["num_item_generated"], p, st_["num_item_discarded"], f.env.now))
                    return
            elif ns["type"] in ("Machine", "Splitter", "Combiner"):
                h = held.get(nid, 0)
                if ns["type"] == "Combiner":
                    continue    # a discarded pallet takes its packed items along: counters are per pallet
                if ns["type"] == "Splitter":
                    # pulls pallets, emits items and pallets: count in flow items.  Everything taken in has been pushed,
                    # counted as discarded, or belongs to the one pallet currently in work.
                    inwork = self.sp_in.get(nid, 0) - self.pushed_by.get(nid, 0) - st_["num_item_discarded"]
                    if inwork < 0 or inwork > self.sp_last.get(nid, 0):
                        self.v(("equation", "Splitter"),
                               "%s: took in %d flow items (pallets incl. content), pushed %d, counts %d as discarded: %d unaccounted, "
                               "the pallet in work has %d (t=%s)" % (nid, self.sp_in.get(nid, 0), self.pushed_by.get(nid, 0),
                                                                    st_["num_item_discarded"], inwork, self.sp_last.get(nid, 0), f.env.now))
                        return
                    continue
                if ns["type"] == "Machine" and h - st_["num_item_discarded"] > node.work_capacity:
                    # every item "in the node" occupies one of its work_capacity places: more than that means an item
                    # the node took is in no place at all (neither pushed, nor counted as discarded, nor in work)
                    self.v(("equation", "Machine", "in_no_place"),
                           "Machine %s: pulled-pushed=%d, discarded=%d: %d items would be inside, work_capacity is %d (t=%s)" % (
                               nid, h, st_["num_item_discarded"], h - st_["num_item_discarded"], node.work_capacity, f.env.now))
                    return
                if h - st_["num_item_discarded"] < 0:
                    self.v(("equation", ns["type"]), "%s %s: pulled-pushed=%d but discarded=%d (t=%s)" % (
                        ns["type"], nid, h, st_["num_item_discarded"], f.env.now))
                    return

    def start(self, f):
        self.pushed_by = {}
        orig = self.on_entry

        def counting(f_, e):
            if e.exc is None and e.op == "put":
                N = f_.edge_spec[e.edge]["src"]
                self.pushed_by[N] = self.pushed_by.get(N, 0) + 1
            orig(f_, e)
        self.on_entry = counting

    def finish(self, f):
        if self.pending_v and not f.crashed:
            for sig, msg in self.pending_v:
                self.res.violate(sig, msg)
        if self.dead or f.crashed or f.livelock or f.build_error:
            return
        spec = f.spec
        if spec.get("drain") and f.drained_at is not None:
            exhausted = all(f.sources[(n["id"], "iat")].n > n["iat"]["finite_after"] for n in spec["nodes"] if n["type"] == "Source")
            if not exhausted:
                return
            gen = sum(node.stats["num_item_generated"] for nid, node in f.nodes.items() if f.node_spec[nid]["type"] == "Source")
            rec = sum(node.stats["num_item_received"] for nid, node in f.nodes.items() if f.node_spec[nid]["type"] == "Sink")
            dis = sum(node.stats.get("num_item_discarded", 0) for nid, node in f.nodes.items())
            if gen != rec + dis:
                where = {}
                for i, l in self.loc.items():
                    if l[0] != "sink":
                        where.setdefault(l, []).append(self.obj[i].id)
                kinds = sorted(set(f.edge_spec[l[1]]["kind"] if l[0] == "edge" else f.node_spec[l[1]]["type"] for l in where))
                self.res.violate(("not_drained", "+".join(kinds) or "?"),
                                 "finite input exhausted and no store operation for %s time units, yet generated=%d received=%d "
                                 "discarded=%d; items remain at %s (t=%s)" % (spec["drain"]["quiet"], gen, rec, dis,
                                                                            dict((str(k), v) for k, v in where.items()), f.env.now))
            self.res.classes.append("drained_checked")


def run_case(case):
    res = Result()
    o = ConservationOracle(res)
    f = FactoryRun(case, res, [o])
    f.run()
    n_in, n_out = {}, {}
    for e in case["edges"]:
        n_out[e["src"]] = n_out.get(e["src"], 0) + 1
        n_in[e["dst"]] = n_in.get(e["dst"], 0) + 1
    fan = any(v >= 2 for v in n_in.values()) or any(v >= 2 for v in n_out.values()) or case.get("shape") == "pack"
    res.nontrivial = bool(fan and o.full_seen and len(o.loc) >= 3)
    res.classes += ["shape:" + case.get("shape", "?")] + sorted(set("edge:" + e["kind"] for e in case["edges"]))
    if f.crashed or f.build_error:
        res.aborted = "crash:%s" % type(f.crashed or f.build_error).__name__
    if f.livelock:
        res.aborted = "livelock"
    return res
