"""C19 - simulations are reproducible and simulated time is monotone."""
import hashlib
import json
import os
import subprocess
import sys
import tempfile

from ..common import Result, canon
from ..harness_factory import FactoryRun, FOracle
from .. import gen_factory

PROP = "C19"
ENGINE = "F"
RULE = ("Engine F: generated factories (RANDOM policies, conveyors whose stores key processes by item id, fleets, all "
        "delay kinds) with a seed. Differential oracle over four executions of one case: twice in this interpreter, once in "
        "a child interpreter with a different PYTHONHASHSEED, once in a child interpreter after a heap-perturbing "
        "pre-allocation (different id() values); the canonical trace (time, edge, put/get, item id) and the final node / "
        "edge statistics of all four must be identical. Within every run kernel time and ledger timestamps never "
        "decrease. Four of five cases are Engine-S store histories (queues of several waiters, withdrawals in the middle of a queue, "
        "all store and edge classes) compared the same way through the harness log. "
        "Non-trivial: the factory uses RANDOM or has >= 2 store operations on different edges in one instant; a history of >= 8 "
        "operations with a cancellation.")
RULE += (" Two in ten flow-shaped factories also contain rework loops (a machine feeding itself or a machine of an earlier layer through a "
         "Buffer / Fleet edge with a strictly positive delay / transit time, so no zero-time cycle exists); machine oracles work per visit, not per item. "
         "One in ten factories is a chain or a rows x cols mesh built by the helpers of factorysimpy.constructs (the harness hands them factories "
         "as node / edge classes and checks the wiring they produce against the documented topology).")
RULE += (" Factories that use RANDOM are executed two more times with the seed set after the model was built (the global generator in two different "
         "states during construction): both executions must be identical.")
ASSUMPTIONS = ["address / hash-seed dependence is sampled (two hash seeds, one heap perturbation), not enumerated",
               "item ids are unique because node ids are"]
KEEP_CASES = True

PROFILE = {"cycles": 2, "constructs": 1, "conveyors": True, "conveyor_to_sink": True, "pack": 2, "finite": 3,
           "policies": ["FIRST_AVAILABLE", "ROUND_ROBIN", "RANDOM", "RANDOM", "RANDOM", "const", "callable", "generator"]}


def examples(tier):
    return 6400 if tier == "quick" else 160000


S_CLASSES = ["ReservablePriorityReqStore", "ReservableReqStore", "ReservablePriorityReqFilterStore", "BufferStore", "FleetStore",
             "Buffer", "Fleet", "SlottedConveyor", "ContinuousConveyor", "SlottedBeltStore"]
S_WEIGHTS = {"rp": 8, "rg": 7, "put": 7, "get": 5, "cp": 3, "cg": 3, "settle": 1, "adv": 4, "peek": 1}


def strategy(tier):
    from hypothesis import strategies as st
    from .. import gen_store
    f = gen_factory.factories(PROFILE)
    # store histories are cheap: four of five cases (queues of several waiters, withdrawals in the middle of a queue)
    h = gen_store.case(S_CLASSES, S_WEIGHTS, max_ops=40, macros=4, extra=7)
    from .c05 import _prs_case
    return st.one_of(f, h, h, h, _prs_case())


def shrink_candidates(case):
    if "ops" in case:
        from .. import gen_store
        yield from gen_store.shrink_candidates(case)
    else:
        yield from gen_factory.shrink_candidates(case)


def prs_trace(case):
    """PriorityReqStore (SimPy-style put/get requests with priorities, C05's case format): the order in which requests are
    served, after every operation"""
    import simpy
    from ..common import silence
    from factorysimpy.base.priority_req_store import PriorityReqStore
    env = simpy.Environment()
    store = PriorityReqStore(env, capacity=case["subject"]["capacity"])
    reqs, log, n = [], [], 0

    def poll(opi):
        for r in reqs:
            if r[2] == "pending" and r[1].triggered:
                r[2] = "served"
                log.append((opi, env.now, r[0]))
    aborted = None
    for opi, op in enumerate(case["ops"]):
        try:
            if op[0] == "P":
                reqs.append(["p%d" % n, store.put("x%d" % n, priority=op[1]), "pending"])
                n += 1
            elif op[0] == "G":
                reqs.append(["g%d" % n, store.get(priority=op[1]), "pending"])
                n += 1
            elif op[0] == "C":
                pend = [r for r in reqs if r[2] == "pending"]
                if pend:
                    r = pend[op[1] % len(pend)]
                    r[1].cancel()
                    r[2] = "cancelled"
            elif op[0] == "adv":
                target = env.now + [0.5, 1, 0.3][op[1] % 3]
                while env.peek() < target:
                    env.step()
                    poll(opi)
                env.run(until=target)
        except Exception as e:   # noqa
            aborted = type(e).__name__
            break
        poll(opi)
    return ["%d %s %s" % e for e in log], aborted, env.now


def store_trace(case):
    if case["subject"]["cls"] == "PriorityReqStore":
        return prs_trace(case)
    """canonical trace of one store history: the harness log (operation, outcome, contents, live tokens after every operation),
    memory addresses removed"""
    import re
    from ..harness_store import StoreRun
    res = Result()
    h = StoreRun(case, res, [])
    h.run()
    tr = [re.sub(r"0x[0-9a-fA-F]+", "0x", l) for l in res.info.get("trace", [])]
    return tr, res.aborted, h.env.now


class MonoOracle(FOracle):
    def __init__(self):
        self.last = None
        self.regress = None

    def after_kernel_event(self, f):
        now = f.env.now
        if self.last is not None and now < self.last and self.regress is None:
            self.regress = (self.last, now)
        self.last = now


def _clean(v):
    if isinstance(v, dict):
        return {str(k): _clean(x) for k, x in sorted(v.items(), key=lambda kv: str(kv[0]))}
    if isinstance(v, (list, tuple)):
        return [_clean(x) for x in v]
    if isinstance(v, float):
        return repr(v)
    if isinstance(v, (int, str, bool)) or v is None:
        return v
    return str(type(v).__name__)


def execute(spec):
    res = Result()
    mono = MonoOracle()
    f = FactoryRun(spec, res, [mono])
    f.run()
    trace = []
    regress = mono.regress
    last = None
    for e in f.ledger:
        if e.exc is None and e.op in ("put", "get"):
            trace.append((repr(e.t), e.edge, e.op, getattr(e.item, "id", "?")))
        if last is not None and e.t < last and regress is None:
            regress = (last, e.t)
        last = e.t
    stats = {}
    for nid, node in f.nodes.items():
        stats[nid] = _clean(getattr(node, "stats", {}))
    for eid, edge in f.edges.items():
        st_ = f.edge_store(edge)
        stats[eid] = {"avg": repr(getattr(st_, "time_averaged_num_of_items_in_store", None)), "inside": len(f.edge_items(eid))}
    crash = None
    if f.crashed or f.build_error:
        ex = f.crashed or f.build_error
        crash = "%s:%s" % (type(ex).__name__, str(ex)[:80])
        # messages that embed object addresses are not part of the observable behaviour
        import re
        crash = re.sub(r"0x[0-9a-f]+", "0x", crash)
    return f, trace, stats, crash, regress


def digest_of(spec):
    if "ops" in spec:
        return hashlib.sha1(json.dumps(store_trace(spec)[:2], sort_keys=True).encode()).hexdigest()
    f, trace, stats, crash, regress = execute(spec)
    return hashlib.sha1(json.dumps([trace, stats, crash], sort_keys=True).encode()).hexdigest()


def first_diff(spec_a_run, spec_b_run):
    (fa, ta, sa, ca, _), (fb, tb, sb, cb, _) = spec_a_run, spec_b_run
    for i, (x, y) in enumerate(zip(ta, tb)):
        if x != y:
            return "trace entry %d: %s vs %s" % (i, x, y), fa.edge_spec[x[1]]["kind"]
    if len(ta) != len(tb):
        return "trace lengths %d vs %d" % (len(ta), len(tb)), "-"
    for k in sa:
        if sa[k] != sb.get(k):
            kind = fa.node_spec[k]["type"] if k in fa.node_spec else fa.edge_spec[k]["kind"]
            return "stats of %s: %s vs %s" % (k, json.dumps(sa[k])[:200], json.dumps(sb.get(k))[:200]), kind
    if ca != cb:
        return "outcome %s vs %s" % (ca, cb), "-"
    return None, None


def run_case(case):
    if "ops" in case:
        res = Result()
        keep = []
        a = store_trace(case)
        keep.append([bytearray(33 + 7 * i) for i in range(257)])       # shift the heap between the executions
        b = store_trace(case)
        keep.append([{"k%d" % i: i} for i in range(131)])
        c = store_trace(case)
        for other in (b, c):
            if other[:2] != a[:2]:
                i = next((j for j, (x, y) in enumerate(zip(a[0], other[0])) if x != y), min(len(a[0]), len(other[0])))
                res.violate(("same_process", case["subject"]["cls"]),
                            "two executions of one store history in one interpreter differ at log entry %d: %s vs %s" % (
                                i, a[0][i] if i < len(a[0]) else a[1], other[0][i] if i < len(other[0]) else other[1]))
                break
        res.nontrivial = sum(1 for o in case["ops"] if o[0] in ("cp", "cg", "C")) >= 1 and len(case["ops"]) >= 8
        res.info["digest"] = hashlib.sha1(json.dumps(a[:2], sort_keys=True).encode()).hexdigest()
        res.classes = ["history:" + case["subject"]["cls"]]
        return res
    res = Result()
    a = execute(case)
    b = execute(case)
    if a[4] or b[4]:
        r = a[4] or b[4]
        res.violate(("time_regress", "-"), "simulated time went from %s back to %s" % r)
    d, comp = first_diff(a, b)
    if d:
        res.violate(("same_process", comp), "two executions in one interpreter differ: " + d)
    f = a[0]
    uses_random = any(n.get(k) == "RANDOM" for n in case["nodes"] for k in ("in_sel", "out_sel"))
    late = []
    if uses_random and not d:
        # the other legitimate order of a user's script: build the model, then random.seed(s), then run - twice, with the
        # global generator in two different states while the model is being built
        c1 = execute(dict(case, late_seed=1))
        c2 = execute(dict(case, late_seed=2))
        d2, comp2 = first_diff(c1, c2)
        if d2:
            res.violate(("same_process", comp2, "seed_set_after_build"),
                        "two executions with the seed set after the model was built differ: " + d2)
        late = ["late_seed"]
    ties = False
    last = None
    for e in f.ledger:
        if e.op in ("put", "get"):
            if last is not None and last[0] == e.t and last[1] != e.edge:
                ties = True
                break
            last = (e.t, e.edge)
    res.nontrivial = bool(uses_random or ties)
    res.info["digest"] = hashlib.sha1(json.dumps([a[1], a[2], a[3]], sort_keys=True).encode()).hexdigest()
    res.classes = ["random" if uses_random else "no_random", "crash" if a[3] else "ok"] + late + sorted(set("edge:" + e["kind"] for e in case["edges"]))
    return res


def _child(specs, hashseed, perturb):
    here = os.path.dirname(os.path.dirname(os.path.abspath(__file__)))
    with tempfile.NamedTemporaryFile("w", suffix=".json", delete=False) as tf:
        json.dump(specs, tf)
        path = tf.name
    try:
        env = dict(os.environ, PYTHONHASHSEED=str(hashseed))
        r = subprocess.run([sys.executable, "-m", "vlib.c19child", path, str(perturb)], cwd=here, env=env,
                           capture_output=True, text=True)
        if r.returncode != 0:
            from ..common import HarnessError
            raise HarnessError("c19 child failed: " + r.stderr[-500:])
        return json.loads(r.stdout)
    finally:
        os.unlink(path)


def finalize_shard(pairs, acc):
    """cross-interpreter part, once per shard: other hash seed, perturbed heap"""
    specs = [c for c, r in pairs if not r.violations]
    if not specs:
        return
    mine = [r.info["digest"] for c, r in pairs if not r.violations]
    for clause, hs, perturb in (("hashseed", 4242, 0), ("heap", 0, 1), ("hashseed", 97, 1)):
        theirs = _child(specs, hs, perturb)
        acc.extra["child_runs_" + clause] = acc.extra.get("child_runs_" + clause, 0) + len(theirs)
        for spec, d0, d1 in zip(specs, mine, theirs):
            if d0 != d1:
                r = Result()
                r.violate((clause, "-"), "digest in this interpreter %s, in a child interpreter (PYTHONHASHSEED=%s, heap perturbation=%d) %s" % (
                    d0[:12], hs, perturb, d1[:12] if not d1.startswith("EXC") else d1))
                acc.add(spec, r)
                acc.evaluations -= 1
