"""C06 - FIFO / LIFO / filter retrieval discipline, also after cancellation of granted retrievals.

Oracle = nondeterministic reference model ("possible worlds").  Which item a granted token is bound to
is observable only at get(); the model therefore keeps every binding assignment that the statement
allows and requires the implementation's get results to be consistent with at least one of them."""
from ..common import Result
from ..harness_store import StoreRun, Oracle, FILTER_NAMES
from .. import gen_store

PROP = "C06"
ENGINE = "S"
RULE = ("Engine S histories rich in cancels of granted retrievals with several items available, gets in arbitrary "
        "token order, both buffer modes, filter predicates from a fixed family. Oracle: possible-worlds model of the "
        "binding token->item. At each grant the bound item must be a minimal unreserved element of the order the "
        "statement fixes (FIFO: never-reserved items in availability order, none of them before a released item that "
        "preceded it; a released item is always admissible and two released items are mutually unordered; LIFO: most recently available unreserved item, a released item may "
        "count as most recent; filtered request: any matching unreserved item); at get() the returned object must "
        "agree with at least one surviving world and satisfy the token's filter. Non-trivial: a granted retrieval was "
        "cancelled while >=2 other items were available and a later get observed the order, or (LIFO) an item became "
        "available between a grant and its get, or a filtered request was granted when the first unreserved item did "
        "not match.")
ASSUMPTIONS = ["items that become available within one kernel event (fleet batch) are mutually unordered here (C14 owns batch order)",
               "availability read from public lists items / ready_items"]

WEIGHTS = {"rp": 5, "rg": 9, "put": 6, "get": 6, "cp": 1, "cg": 6, "settle": 1, "adv": 5, "peek": 1}
CLASSES = gen_store.ALL_PLAIN + gen_store.BELTS
MAX_WORLDS = 3000


def examples(tier):
    return 32000 if tier == "quick" else 640000


def strategy(tier):
    return gen_store.case(CLASSES, WEIGHTS, max_ops=40, macros=5, extra=7)


shrink_candidates = gen_store.shrink_candidates


class Desync(Exception):
    pass


class DisciplineOracle(Oracle):
    def __init__(self, res, rank_within_batch=False):
        self.res = res
        self.rank_within_batch = rank_within_batch   # C14: members of one fleet batch are ordered as they arrive
        self.seq = 0
        self.rank = {}        # id(item) -> availability rank
        self.obj = {}         # id(item) -> item
        self.avail = []       # ids available, not yet returned
        self.worlds = [({}, {})]   # (bind tok.id -> item id, rel item id -> release seq)
        self.dead = False
        self.cancelled_granted = False
        self.nt_cancel_armed = False
        self.lifo_pending_arrival = False

    # -------------------------------------------------------------- helpers
    def sig(self, h, clause):
        S = h.subj
        return (S.cls, S.mode if S.is_buffer else "FIFO", clause)

    def observe(self, h):
        if self.dead:
            return
        ready = h.subj.ready()
        new = [x for x in ready if id(x) not in self.rank]
        if new:
            self.seq += 1
            for x in new:
                if self.rank_within_batch:
                    self.seq += 1
                self.rank[id(x)] = self.seq
                self.obj[id(x)] = x
                self.avail.append(id(x))
            if h.subj.mode == "LIFO" and any(t.side == "g" and t.state == "granted" for t in h.toks):
                self.lifo_pending_arrival = True

    def admissible(self, h, world, tok):
        bind, rel = world
        S = h.subj
        bound = set(bind.values())
        U = [i for i in self.avail if i not in bound]
        f = h.filters[tok.filt] if S.has_filter else None
        if S.has_filter:
            if f is None:
                td = S.trigger_delay
                U = [i for i in U if h.env.now >= h.put_time.get(i, h.env.now) + td]
            elif FILTER_NAMES[tok.filt] != "always":
                return [i for i in U if f(self.obj[i])]
        if not U:
            return []
        if S.is_buffer and S.mode == "LIFO":
            k1 = max(self.rank[i] for i in U)
            k2 = max(max(self.rank[i], rel.get(i, 0)) for i in U)
            return [i for i in U if self.rank[i] == k1 or max(self.rank[i], rel.get(i, 0)) == k2]
        out = []
        for x in U:
            ok = True
            for y in U:
                # a released item is always admissible: the statement only fixes that it goes ahead of the
                # never-reserved items it preceded, and that never-reserved items keep their order
                if y != x and self.rank[y] < self.rank[x] and x not in rel:
                    ok = False
                    break
            if ok:
                out.append(x)
        return out

    # -------------------------------------------------------------- hooks
    def on_grants(self, h, toks):
        """Several retrievals granted within one observation step: their relative order is not
        observable here (C05 owns it), so every order is a possible world."""
        import itertools
        gets = [t for t in toks if t.side == "g"]
        if self.dead or not gets:
            return
        self.observe(h)
        if len(gets) == 1:
            return self.on_grant(h, gets[0])
        if len(gets) > 4:
            self.dead = True
            self.res.aborted = "c06_world_limit"
            return
        start = self.worlds
        union = []
        for perm in itertools.permutations(gets):
            self.worlds = [(dict(b), dict(r)) for b, r in start]
            ok = True
            for t in perm:
                self.on_grant(h, t)
                if self.dead:
                    ok = False
                    break
            if ok:
                union.extend(self.worlds)
            elif self.res.aborted == "c06_no_item_for_grant":
                self.dead = False
                self.res.aborted = None
            else:
                return
        if not union:
            self.dead = True
            self.res.aborted = "c06_no_item_for_grant"
            return
        seen = set()
        uniq = []
        for b, r in union:
            k = (tuple(sorted(b.items())), tuple(sorted(r.items())))
            if k not in seen:
                seen.add(k)
                uniq.append((b, r))
        self.worlds = uniq

    def on_grant(self, h, t):
        if self.dead or t.side != "g":
            return
        self.observe(h)
        new = []
        for w in self.worlds:
            for x in self.admissible(h, w, t):
                b = dict(w[0])
                b[t.id] = x
                r = dict(w[1])
                r.pop(x, None)
                new.append((b, r))
        # non-trivial (c): filtered request whose first unreserved item does not match
        S = h.subj
        if S.has_filter and h.filters[t.filt] is not None and self.worlds:
            bound = set(self.worlds[0][0].values())
            U = [i for i in self.avail if i not in bound]
            if U:
                first = min(U, key=lambda i: self.rank[i])
                if not h.filters[t.filt](self.obj[first]):
                    self.res.nontrivial = True
        if not new:
            self.dead = True
            self.res.aborted = "c06_no_item_for_grant"
            return
        if len(new) > MAX_WORLDS:
            self.dead = True
            self.res.aborted = "c06_world_limit"
            return
        # dedupe
        seen = set()
        uniq = []
        for b, r in new:
            k = (tuple(sorted(b.items())), tuple(sorted(r.items())))
            if k not in seen:
                seen.add(k)
                uniq.append((b, r))
        self.worlds = uniq

    def after_op(self, h, op, outcome):
        if self.dead:
            return
        k = op[0]
        S = h.subj
        if k == "get" and outcome["status"] == "ok":
            t = outcome["tok"]
            x = outcome["value"]
            xi = id(x)
            f = h.filters[t.filt] if S.has_filter else None
            if f is not None and not f(x):
                self.res.violate(self.sig(h, "filter"),
                                 "retrieval with filter %s received %r (kind=%s serial=%s) which does not satisfy it (op#%d)" % (
                                     FILTER_NAMES[t.filt], x, getattr(x, "kind", None), getattr(x, "serial", None),
                                     h.current_op_index))
                self.dead = True
                return
            surv = [(b, r) for (b, r) in self.worlds if b.get(t.id) == xi]
            if not surv:
                clause = "lifo" if (S.is_buffer and S.mode == "LIFO") else ("after_cancel" if self.cancelled_granted else "fifo")
                allowed = sorted(set(self.obj[b[t.id]].id for (b, r) in self.worlds if t.id in b))
                self.res.violate(self.sig(h, clause),
                                 "get(token #%d) returned %s but the discipline allows only %s (availability order %s) (op#%d, t=%s)" % (
                                     t.id, getattr(x, "id", x), allowed,
                                     [self.obj[i].id for i in sorted(self.avail, key=lambda i: self.rank[i])],
                                     h.current_op_index, h.env.now))
                self.dead = True
                return
            for b, r in surv:
                del b[t.id]
                r.pop(xi, None)
            self.worlds = surv
            if xi in self.avail:
                self.avail.remove(xi)
            if self.nt_cancel_armed or self.lifo_pending_arrival:
                self.res.nontrivial = True
        self.observe(h)

    def on_cancel(self, h, t, was):
        """called right after the cancel call returned, before any grant it caused is reported"""
        if self.dead or t.side != "g" or was != "granted":
            return
        self.seq += 1
        self.cancelled_granted = True
        for b, r in self.worlds:
            x = b.pop(t.id, None)
            if x is not None:
                r[x] = self.seq
        if len(self.avail) - 1 >= 2:
            self.nt_cancel_armed = True

    def after_kernel_event(self, h):
        self.observe(h)


def run_case(case):
    res = Result()
    h = StoreRun(case, res, [DisciplineOracle(res)])
    h.run()
    s = case["subject"]
    res.classes = [s["cls"] + ("/" + s["mode"] if "mode" in s else "")]
    if res.aborted:
        res.classes.append("aborted:" + res.aborted)
    return res


def enumerate_cases(tier, shard, nshards):
    return gen_store.enumerate_histories(shard, nshards)


def enum_definition(tier):
    return gen_store.enum_definition()


is_enumerated = gen_store.is_enumerated
