"""C16 - a combiner packs exactly its recipe; a splitter emits each contained item once, then the pallet."""
from ..common import Result
from ..harness_factory import FactoryRun, FOracle
from ..fanalysis import NodeBook
from .. import gen_factory

PROP = "C16"
ENGINE = "F"
RULE = ("Engine F pack/unpack lines: pallet source + 1-3 ingredient sources -> combiner (recipe entries 0-3, blocking or "
        "not, all out-edge policies) -> buffers -> splitter -> sinks, generated relative timing of pallets and ingredients "
        "(ingredients first, starvation of one ingredient, several ingredients in one instant). Oracle from the outside "
        "ledger: every object a combiner pushes is a pallet it pulled from its first in-edge, and its items at the moment "
        "of the push are exactly the objects pulled since that pallet, recipe[i] of them from in-edge i; per pallet entering "
        "a splitter the following emissions are each contained item exactly once (pushed or - non-blocking - counted as "
        "discarded), then the pallet with no items left, and nothing else. A quarter of the cases are circular lines: a "
        "harness-owned router node (documented edge API only) injects 1-3 pallets and a fixed stock of items and sends every "
        "pallet / item the splitter emits back to the combiner's pallet / item buffer, so the same pallets are packed, unpacked and "
        "packed again with the same items. Non-trivial: recipe with >= 2 ingredient edges "
        "and an entry >= 2, and a pallet that had to wait for an ingredient; or a pallet packed a second time.")
ASSUMPTIONS = ["non-blocking splitter: 'emits exactly once' is read together with C09 (an item may be discarded instead, counted once)",
               "Buffer edges around combiner/splitter (the node code names Buffer as the supported out-edge type)"]

PROFILE = {"conveyors": False, "pack": 10, "finite": 3}


def examples(tier):
    return 8000 if tier == "quick" else 160000


def decode_loop(ints):
    """circular line: router R0 -> (pallet buffer, item buffer) -> combiner -> buffer -> splitter -> buffer(s) -> R0.
    A fixed population of pallets and items goes round, so every pallet is packed, unpacked and packed again."""
    g = gen_factory.G(ints)
    p = dict(gen_factory.DEFAULT_PROFILE)
    q = g.pick([1, 2, 2, 3])
    P = g.pick([1, 1, 2, 3])
    M = max(1, q * P + g.pick([0, 0, 1, 2, -1]))
    grid = [0, 0.5, 1, 1, 2, 0.3]

    def dl():
        return gen_factory.delay_spec(g, True, grid)

    def buf(eid, src, dst, cap):
        return {"id": eid, "kind": "Buffer", "src": src, "dst": dst, "capacity": cap, "mode": g.pick(["FIFO", "FIFO", "LIFO"]),
                "delay": g.pick([{"kind": "const", "values": [0]}, dl()])}
    nodes = [{"id": "R0", "type": "Router", "pallets": P, "items": M, "feed_gap": g.pick([0, 0, 0.5, 1]),
              "waits": [g.pick([0, 0, 0.5, 1, 2]) for _ in range(1 + g.n(3))]},
             {"id": "C0", "type": "Combiner", "setup": g.pick([0, 0, 1]), "blocking": g.chance(5, 6), "delay": dl(),
              "recipe": [1, q], "out_sel": g.pick(["FIRST_AVAILABLE", "ROUND_ROBIN"])},
             {"id": "X0", "type": "Splitter", "setup": g.pick([0, 0, 1]), "blocking": g.chance(5, 6), "delay": dl(),
              "in_sel": g.pick(["FIRST_AVAILABLE", "ROUND_ROBIN"]), "out_sel": g.pick(["FIRST_AVAILABLE", "ROUND_ROBIN"])}]
    sq = g.pick([None, None, 1, 2])
    if sq is not None:
        nodes[2]["split_quantity"] = sq
    edges = [buf("E0", "R0", "C0", P + g.n(2)), buf("E1", "R0", "C0", M + g.n(2))]
    for i in range(g.pick([1, 1, 2])):
        edges.append(buf("E%d" % len(edges), "C0", "X0", 1 + g.n(3)))
    for i in range(g.pick([1, 1, 2])):
        edges.append(buf("E%d" % len(edges), "X0", "R0", 1 + g.n(4)))
    return {"nodes": nodes, "edges": edges, "shape": "loop", "seed": g.n(1000), "T": g.pick([20.0, 40.0, 60.0])}


def strategy(tier):
    from hypothesis import strategies as st
    loops = st.lists(st.integers(0, 65535), min_size=40, max_size=40).map(decode_loop)
    f = gen_factory.factories(PROFILE)
    return st.one_of(f, f, f, loops)


shrink_candidates = gen_factory.shrink_candidates


class PackOracle(FOracle):
    def __init__(self, res, book):
        self.res = res
        self.book = book
        self.pull_snap = {}     # (node, id(pallet)) -> items at the moment the splitter pulled it
        self.waited = False
        self.repacked = False
        self.carried = {}

    def start(self, f):
        self.kinds = {nid: f.node_spec[nid]["type"] for nid in f.nodes}
        self.disc_at_pull = {}

    def on_entry(self, f, e):
        if e.exc is None and e.op == "get":
            nid = f.edge_spec[e.edge]["dst"]
            if self.kinds[nid] == "Combiner" and isinstance(getattr(e.item, "items", None), list):
                # what the pallet already carries when the combiner takes it (second packing stage, circular lines)
                self.carried[(nid, e.k)] = list(e.item.items)
            if self.kinds[nid] == "Splitter":
                snap = list(e.item.items) if isinstance(getattr(e.item, "items", None), list) else None
                j = len(self.book.pulls[nid]) - 1      # NodeBook (first oracle) has already recorded this pull
                self.pull_snap[(nid, id(e.item), j)] = snap
                self.disc_at_pull[(nid, j)] = f.nodes[nid].stats["num_item_discarded"]

    def finish(self, f):
        if f.build_error:
            return
        for nid, kind in self.kinds.items():
            if kind == "Combiner":
                self.check_combiner(f, nid)
            elif kind == "Splitter":
                self.check_splitter(f, nid)

    def check_combiner(self, f, nid):
        spec = f.node_spec[nid]
        recipe = spec["recipe"]
        n_in = len(f.in_edge_ids(nid))
        pulls = self.book.pulls[nid]
        # windows: pallet pull -> ingredient pulls until the next pallet pull
        windows = []
        for (t, k, item, ei, eid) in pulls:
            if ei == 0:
                windows.append({"pallet": item, "t": t, "k": k, "ing": []})
            elif windows:
                windows[-1]["ing"].append((item, ei, t))
            else:
                self.res.violate(("Combiner", "recipe", "ingredient_before_pallet"),
                                 "%s pulled %s from in-edge %d before any pallet" % (nid, item.id, ei))
                return
        for (t, k, obj, oi, eid, snap) in self.book.pushes[nid]:
            # the same pallet may come round again (circular lines): its latest pull before this push
            cand = [w_ for w_ in windows if w_["pallet"] is obj and w_["k"] <= k]
            w = cand[-1] if cand else None
            if w is None or snap is None:
                self.res.violate(("Combiner", "foreign_pallet"),
                                 "%s pushed %r at t=%s which is not a pallet pulled from its first in-edge" % (nid, obj, t))
                return
            got = sorted(id(x) for x in snap)
            exp = sorted([id(x) for (x, ei, tt) in w["ing"]] + [id(x) for x in self.carried.get((nid, w["k"]), [])])
            per = {}
            for (x, ei, tt) in w["ing"]:
                per[ei] = per.get(ei, 0) + 1
            want = {i: recipe[i] for i in range(1, n_in) if recipe[i] > 0}
            if got != exp or per != want:
                self.res.violate(("Combiner", "recipe"),
                                 "%s pushed pallet %s at t=%s carrying %s; pulled for it per in-edge %s; recipe %s%s" % (
                                     nid, obj.id, t, [x.id for x in snap], per, recipe,
                                     "; it arrived carrying %s" % [x.id for x in self.carried[(nid, w["k"])]] if self.carried.get((nid, w["k"])) else ""))
                return
            if any(tt > w["t"] for (x, ei, tt) in w["ing"]):
                self.waited = True
            if len(cand) >= 2:
                self.repacked = True

    def check_splitter(self, f, nid):
        spec = f.node_spec[nid]
        blocking = spec.get("blocking", True)
        pulls = self.book.pulls[nid]
        pushes = self.book.pushes[nid]
        node = f.nodes[nid]
        for j, (t, k, pallet, ei, eid) in enumerate(pulls):
            snap = self.pull_snap.get((nid, id(pallet), j))
            if snap is None:
                self.res.violate(("Splitter", "foreign_emit", "not_a_pallet"), "%s pulled %r which is not a pallet" % (nid, pallet))
                return
            k_next = pulls[j + 1][1] if j + 1 < len(pulls) else None
            t_next = pulls[j + 1][0] if j + 1 < len(pulls) else None
            mine = [p for p in pushes if p[1] >= k and (k_next is None or p[1] < k_next)]
            complete = k_next is not None
            ids = [id(x) for x in snap]
            emitted = []
            pallet_pos = None
            for pos, p in enumerate(mine):
                obj = p[2]
                if obj is pallet:
                    if pallet_pos is not None:
                        self.res.violate(("Splitter", "duplicate_emit", "pallet"), "%s pushed pallet %s twice" % (nid, pallet.id))
                        return
                    pallet_pos = pos
                    if p[5]:
                        self.res.violate(("Splitter", "pallet_not_empty"),
                                         "%s pushed pallet %s at t=%s still carrying %s" % (nid, pallet.id, p[0], [x.id for x in p[5]]))
                        return
                elif id(obj) in ids:
                    if id(obj) in emitted:
                        self.res.violate(("Splitter", "duplicate_emit", "item"), "%s emitted %s twice (pallet %s)" % (nid, obj.id, pallet.id))
                        return
                    emitted.append(id(obj))
                    if pallet_pos is not None:
                        self.res.violate(("Splitter", "pallet_not_last"),
                                         "%s pushed pallet %s before its item %s" % (nid, pallet.id, obj.id))
                        return
                else:
                    self.res.violate(("Splitter", "foreign_emit"),
                                     "%s emitted %r at t=%s which was not in pallet %s %s" % (nid, obj, p[0], pallet.id, [x.id for x in snap]))
                    return
            if complete:
                missing = len(ids) - len(emitted) + (0 if pallet_pos is not None else 1)
                if blocking and missing:
                    self.res.violate(("Splitter", "missing_emit"),
                                     "%s took the next pallet although pallet %s (%d items) was emitted only %d item(s)%s" % (
                                         nid, pallet.id, len(ids), len(emitted), "" if pallet_pos is not None else " and not the pallet"))
                    return
                if not blocking:
                    d0 = self.disc_at_pull.get((nid, j), 0)
                    d1 = self.disc_at_pull.get((nid, j + 1), node.stats["num_item_discarded"])
                    if d1 - d0 != missing:
                        self.res.violate(("Splitter", "missing_emit", "nonblocking"),
                                         "%s: pallet %s with %d items: %d emissions missing but discard counter rose by %d" % (
                                             nid, pallet.id, len(ids), missing, d1 - d0))
                        return


def run_case(case):
    res = Result()
    book = NodeBook()
    o = PackOracle(res, book)
    f = FactoryRun(case, res, [book, o])
    f.run()
    comb = [n for n in case["nodes"] if n["type"] == "Combiner"]
    rich = any(sum(1 for q in n["recipe"][1:] if q > 0) >= 2 and any(q >= 2 for q in n["recipe"][1:]) for n in comb)
    res.nontrivial = bool((rich and o.waited) or o.repacked)
    if case.get("shape") == "loop":
        res.classes.append("loop:repacked" if o.repacked else "loop:single_round")
    res.classes += ["recipe:%s" % "-".join(str(q) for q in n["recipe"]) for n in comb][:1]
    res.classes += ["splitter" if any(n["type"] == "Splitter" for n in case["nodes"]) else "no_splitter"]
    if f.crashed or f.build_error:
        res.aborted = "crash:%s" % type(f.crashed or f.build_error).__name__
    if f.livelock:
        res.aborted = "livelock"
    return res
