"""C05 - requests are served by priority, first-come-first-served among equals."""
import simpy

from ..common import Result
from ..harness_store import StoreRun, Oracle
from .. import gen_store
from hypothesis import strategies as st

PROP = "C05"
ENGINE = "S"
RULE = ("Engine S histories on all store classes (priorities -2..2 with many ties on the priority-capable ones; FCFS "
        "on the others) with capacity 1-2 so queues build up, arrivals over several instants, interleaved puts, gets "
        "and cancels; plus generated put/get/cancel request histories on PriorityReqStore. Model-free order oracle: "
        "for two requests of the same kind with (priority, arrival) a < b, b is never granted while a is still pending "
        "and un-cancelled (observed after every call and kernel event). Non-trivial: >=3 requests of one kind pending "
        "at once with >=2 distinct priorities and a tie (no-priority stores: >=3 pending), and a cancel or a put/get "
        "happened while they waited.")
ASSUMPTIONS = ["grant = event.triggered, polled after every API call and kernel event"]

WEIGHTS = {"rp": 9, "rg": 9, "put": 5, "get": 5, "cp": 3, "cg": 3, "settle": 1, "adv": 4}
CLASSES = gen_store.ALL_PLAIN + ["SlottedConveyor", "SlottedBeltStore", "SlottedBeltStore"]


def examples(tier):
    return 32000 if tier == "quick" else 640000


def _prs_case():
    op = st.tuples(st.integers(0, 9), st.integers(-2, 2), st.integers(0, 7)).map(
        lambda t: (["P", t[1]] if t[0] < 3 else ["G", t[1]] if t[0] < 6 else ["C", t[2]] if t[0] < 8
                   else ["adv", t[2] % 3]))
    return st.fixed_dictionaries({"subject": st.fixed_dictionaries({"cls": st.just("PriorityReqStore"),
                                                                     "capacity": st.integers(1, 2)}),
                                  "ops": st.lists(op, min_size=4, max_size=30)})


def strategy(tier):
    return st.one_of(gen_store.case(CLASSES, WEIGHTS, max_ops=40, cap_max=2, macros=4, extra=5),
                     gen_store.case(CLASSES, WEIGHTS, max_ops=40, cap_max=2, macros=4, extra=5),
                     gen_store.case(CLASSES, WEIGHTS, max_ops=40, cap_max=2, macros=4, extra=5),
                     _prs_case())


def shrink_candidates(case):
    if case["subject"]["cls"] == "PriorityReqStore":
        from ..common import generic_candidates
        ops = case["ops"]
        n = len(ops)
        chunk = n // 2
        while chunk >= 1:
            for i in range(0, n, chunk):
                yield dict(case, ops=ops[:i] + ops[i + chunk:])
            chunk //= 2
        return
    yield from gen_store.shrink_candidates(case)


def has_prio(S):
    return S.cls in ("ReservablePriorityReqStore", "ReservablePriorityReqFilterStore", "FleetStore", "SlottedBeltStore")


class OrderOracle(Oracle):
    def __init__(self, res):
        self.res = res
        self.rich = {"p": False, "g": False}      # queue shape reached
        self.disturbed = {"p": False, "g": False}

    def key(self, h, t):
        return (t.prio if has_prio(h.subj) else 0, t.seq)

    def on_grant(self, h, t):
        S = h.subj
        for a in h.toks:
            if a.side == t.side and a.state == "pending" and a is not t and self.key(h, a) < self.key(h, t):
                rel = "priority" if self.key(h, a)[0] < self.key(h, t)[0] else "fcfs"
                self.res.violate((S.cls, "put" if t.side == "p" else "get", rel),
                                 "request #%d (prio %s, arrival %d) granted while request #%d (prio %s, arrival %d) "
                                 "is still pending (t=%s, op#%d)" % (t.id, t.prio, t.seq, a.id, a.prio, a.seq,
                                                                     h.env.now, h.current_op_index))
                break

    def after_op(self, h, op, outcome):
        for side in ("p", "g"):
            pend = h.pending(side)
            if len(pend) >= 3:
                if has_prio(h.subj):
                    pr = [t.prio for t in pend]
                    if len(set(pr)) >= 2 and len(set(pr)) < len(pr):
                        self.rich[side] = True
                else:
                    self.rich[side] = True
            if self.rich[side] and op[0] in ("put", "get", "cp", "cg") and len(pend) >= 2:
                self.disturbed[side] = True
        if any(self.rich[s] and self.disturbed[s] for s in "pg"):
            self.res.nontrivial = True


def run_prs(case, res):
    """PriorityReqStore: SimPy-style put(item, priority)/get(priority) requests, cancel()."""
    from factorysimpy.base.priority_req_store import PriorityReqStore
    env = simpy.Environment()
    store = PriorityReqStore(env, capacity=case["subject"]["capacity"])
    reqs = []   # dict(side, prio, seq, ev, state)
    n = 0
    rich = False
    disturbed = False

    def poll(opi):
        new = [r for r in reqs if r["state"] == "pending" and r["ev"].triggered]
        for r in new:
            r["state"] = "granted"
        for r in new:
            if True:
                for a in reqs:
                    if a["side"] == r["side"] and a["state"] == "pending" and (a["prio"], a["time"], a["seq"]) < (r["prio"], r["time"], r["seq"]):
                        rel = "priority" if a["prio"] < r["prio"] else "fcfs"
                        res.violate(("PriorityReqStore", "put" if r["side"] == "p" else "get", rel),
                                    "request #%d (prio %d) granted while #%d (prio %d, earlier) still pending (op#%d)" % (
                                        r["seq"], r["prio"], a["seq"], a["prio"], opi))
                        return

    for opi, op in enumerate(case["ops"]):
        k = op[0]
        try:
            if k == "P":
                ev = store.put("x%d" % n, priority=op[1])
                reqs.append({"side": "p", "prio": op[1], "seq": n, "time": env.now, "ev": ev, "state": "pending"})
                n += 1
            elif k == "G":
                ev = store.get(priority=op[1])
                reqs.append({"side": "g", "prio": op[1], "seq": n, "time": env.now, "ev": ev, "state": "pending"})
                n += 1
            elif k == "C":
                pend = [r for r in reqs if r["state"] == "pending"]
                if pend:
                    r = pend[op[1] % len(pend)]
                    r["ev"].cancel()
                    r["state"] = "cancelled"
                    # SimPy only re-examines the queues on the next put/get; a cancel does not by itself
                    # trigger service - the order predicate does not depend on it.
                    if rich:
                        disturbed = True
            elif k == "adv":
                target = env.now + [0.5, 1, 0.3][op[1] % 3]
                while env.peek() < target:
                    env.step()
                    poll(opi)
                env.run(until=target)
        except Exception as e:   # noqa
            res.aborted = "prs_exception:%s" % type(e).__name__
            break
        poll(opi)
        for side in "pg":
            pend = [r for r in reqs if r["side"] == side and r["state"] == "pending"]
            pr = [r["prio"] for r in pend]
            if len(pend) >= 3 and len(set(pr)) >= 2 and len(set(pr)) < len(pr):
                rich = True
    if rich and disturbed:
        res.nontrivial = True
    res.classes = ["PriorityReqStore"]
    return res


def run_case(case):
    res = Result()
    if case["subject"]["cls"] == "PriorityReqStore":
        return run_prs(case, res)
    h = StoreRun(case, res, [OrderOracle(res)])
    h.run()
    res.classes = [case["subject"]["cls"]]
    if res.aborted:
        res.classes.append("aborted:" + res.aborted)
    return res


def enumerate_cases(tier, shard, nshards):
    return gen_store.enumerate_histories(shard, nshards)


def enum_definition(tier):
    return gen_store.enum_definition()


is_enumerated = gen_store.is_enumerated
