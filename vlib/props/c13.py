"""C13 - conveyor stalls: non-accumulating belts stop, accumulating belts close up."""
from ..common import Result
from ..common import close as _close

_SCALE = [0.0]


def close(a, b):
    # instants measured relative to a large clock offset t0 carry the float spacing at t0 (about 2e-16 * t0 each)
    return _close(a, b) or abs(a - b) <= 64 * 2.3e-16 * _SCALE[0]

from ..harness_conv import ConvRun
from ..model_kin import simulate
from .. import gen_conv

PROP = "C13"
ENGINE = "K"
RULE = ("Engine K as C12 with consumer scripts biased to stalls (short, long, repeated, starting while an item is entering, "
        "ending in the instant another item arrives); geometry restricted to integer lengths that are a multiple of the item "
        "length. Oracle: differential against a kinematic reference model (continuous front positions; items move at speed "
        "unless - non-accumulating - the head waits unreserved at the exit, then all freeze and nothing is admitted, or - "
        "accumulating - they touch the item ahead; admission when the last item's tail has cleared the entrance, the belt "
        "holds < capacity items and it is accumulating or not stalled; the head is offered when its front reaches the "
        "end), co-simulated with the same producer/consumer scripts. Compared per item: admission instant and offer instant; "
        "only the first deviation of a run is classified (conveyor kind, accumulating, admit|offer, early|late, structural "
        "flag). In three of eight cases the destination does not simply take the head at the grant instant: it holds the granted "
        "retrieval for a collection time (the head keeps waiting at the exit: the belt stays stopped until it is collected; deviations "
        "after such a hold carry the flag held_retrieval), or it withdraws the granted retrieval zero to two kernel hops after "
        "the grant (what a FIRST_AVAILABLE fan-in node does to the edges it did not pick; the head then waits unreserved) and "
        "asks again later; the source side may likewise withdraw a granted admission zero to two kernel hops after the grant "
        "(a FIRST_AVAILABLE fan-out node) and ask again later - nothing enters; in a part of those cases a second source process shares "
        "the belt (own script; admissions are served in request order); in half of the cases the first source holds a granted admission "
        "for a loading time before it puts the item (one admission at a time; an item put on a stopped belt stays at the entrance). Non-trivial: a stall happened while another item was on the belt or an admission request was pending.")
ASSUMPTIONS = ["unless the case says otherwise (collection time, loading time, withdrawn retrieval / admission) the consumer gets and the producer puts at the grant instant",
               "times compared with 1e-9 relative tolerance",
               "slotted conveyor = continuous model with item length 1 slot, length capacity slots, speed 1/delay"]


def examples(tier):
    return 16000 if tier == "quick" else 320000


def strategy(tier):
    return gen_conv.cases(nice_only=True, cholds=True, holds=True)


shrink_candidates = gen_conv.shrink_candidates


def model_for(case, admit_first=()):
    c = case["conv"]
    if c["kind"] == "continuous":
        L, il, v = float(c["L"]), float(c["il"]), float(c["v"])
        cap = int(round(L / il))
    else:
        L, il, v = float(c["capacity"]), 1.0, 1.0 / c["delay"]
        cap = c["capacity"]
    return simulate(L, il, v, cap, bool(c.get("acc", 1)), case["producer"], case["consumer"], case.get("T", 400.0), admit_first,
                    chold=case.get("chold"), ccancel=case.get("ccancel"), pcancel=case.get("pcancel"),
                    producer2=case.get("producer2"), pcancel2=case.get("pcancel2"), hold=case.get("hold"))


def compare(case, r, m):
    """first deviation in time: (time, what, direction, item index, impl value, model value)"""
    devs = []
    n = max(len(r.t_put), len(m["admit"]))
    for i in range(n):
        a = r.t_put[i] if i < len(r.t_put) else None
        b = m["admit"][i] if i < len(m["admit"]) else None
        if a is None or b is None:
            if a is None and b is not None:
                devs.append((b, "admit", "late", i, a, b))
            elif b is None and a is not None:
                devs.append((a, "admit", "early", i, a, b))
        elif not close(a, b):
            devs.append((min(a, b), "admit", "early" if a < b else "late", i, a, b))
    for i, it in enumerate(r.items):
        a = r.t_offer.get(id(it))
        b = m["offer"].get(i)
        if a is None and b is None:
            continue
        if a is None:
            devs.append((b, "offer", "late", i, a, b))
        elif b is None:
            devs.append((a, "offer", "early", i, a, b))
        elif not close(a, b):
            devs.append((min(a, b), "offer", "early" if a < b else "late", i, a, b))
    if not devs:
        return None
    devs.sort(key=lambda d: (d[0], 0 if d[1] == "admit" else 1))
    return devs[0]


def run_case(case):
    _SCALE[0] = float(case.get("t0") or 0.0)
    res = Result()
    r = ConvRun(case).run()
    c = case["conv"]
    kind, acc = c["kind"], c.get("acc", 1)
    res.classes = ["%s/acc=%d" % (kind, acc)]
    if r.crashed is not None or r.livelock:
        res.aborted = "crash:%s" % (type(r.crashed).__name__ if r.crashed else "livelock")
        return res
    m = model_for(case)
    res.nontrivial = bool(m["stall_with_others"])
    if m["stall"]:
        res.classes.append("stall")
    d = compare(case, r, m)
    tried = 0
    chosen = set()
    useless = set()
    while d is not None and tried < 12:
        # same-instant ties (an admission request coinciding with the head reaching the exit of a non-accumulating
        # belt) are not fixed by the statement: flip the resolution of the tie at the deviation instant and retry
        tie = next((j for j, tt in enumerate(m["ties"]) if close(tt, d[0]) and j not in chosen and j not in useless), None)
        via_withdrawn = False
        if tie is None:
            # a tie whose admission was withdrawn again brings no item: its resolution only shows in later instants
            wd = list(getattr(r, "t_cancel_put", ())) + list(m.get("withdrawn", ()))
            tie = next((j for j, tt in enumerate(m["ties"]) if j not in chosen and j not in useless and tt <= d[0]
                        and any(close(tt, x) for x in wd)), None)
            via_withdrawn = tie is not None
        via_held = False
        if tie is None and case.get("hold"):
            # a tie whose admission is held for a loading time shows one loading time later, when the item is put
            hs = sorted(set(h for h in case["hold"] if h > 0))
            tie = next((j for j, tt in enumerate(m["ties"]) if j not in chosen and j not in useless and tt <= d[0]
                        and any(close(tt + h, d[0]) for h in hs)), None)
            via_held = tie is not None
        if tie is None:
            break
        # "admission before the stall" is a legitimate resolution of the tie unless the library's own same-time-step rule
        # decides it robustly: the arriving head was never delayed (its travel is exactly length/speed, no stall
        # arithmetic involved) and the request instant is not earlier than the arrival instant as a float.  In that case
        # the unchanged library refuses in either event order, and so does the model.
        idx = d[3]
        req_sorted = sorted(r.req_put)
        if d[1] == "admit" and idx < len(req_sorted) and (close(m["ties"][tie], d[0]) or via_held):
            robust = False
            for hi, it in enumerate(r.items):
                v = r.t_offer.get(id(it))
                if v is None or not close(v, m["ties"][tie]) or hi >= len(r.t_put):
                    continue
                undelayed = close(v - r.t_put[hi], r.travel_nominal)
                # same floating-point test as the library's rule ("an item is going to be in ready_items in the same
                # time step, so do not allow another item"): elapsed travel >= item_length*capacity/speed
                c = case["conv"]
                full = (c["il"] * r.capacity / c["v"]) if c["kind"] == "continuous" else r.travel_nominal
                if undelayed and not (req_sorted[idx] < v) and (v - r.t_put[hi]) >= full:
                    robust = True
            if robust:
                break
        chosen.add(tie)
        tried += 1
        m2 = model_for(case, admit_first=tuple(chosen))
        d2 = compare(case, r, m2)
        if d2 is None or d2[0] > d[0]:
            d, m = d2, m2
            res.classes.append("tie_flipped")
        elif via_withdrawn and (d2[0] > d[0] or close(d2[0], d[0])) and (
                len(m2.get("withdrawn", ())) > 0 and all(any(close(x, y) for y in r.t_cancel_put) for x in m2["withdrawn"] if x <= d[0])
                and not all(any(close(x, y) for y in r.t_cancel_put) for x in m.get("withdrawn", ()) if x <= d[0])):
            # the flip makes the model withdraw at the instants the implementation did; it may take the flip of a later tie
            # (created by it) to move the deviation - keep it and go on
            d, m = d2, m2
            res.classes.append("tie_flipped")
        else:
            chosen.discard(tie)
            useless.add(tie)       # flipping this one does not help: try the other candidates
            if not via_withdrawn:
                break
    if d is not None:
        t, what, direction, i, a, b = d
        flag = structural_flag(case, r, m, d)
        if what == "offer" and a is None and b is not None:
            flag = "never_offered"       # the item is still on the belt when the run ends (T is far beyond the script)
            cc = case["conv"]
            if cc["kind"] == "continuous" and cc.get("acc", 1):
                slot = cc["il"] / cc["v"]
                if abs(slot * 48 - round(slot * 48)) > 1e-9:
                    # K3 in its extreme form: with a slot time off every time grid (item 0.5, speed 5.76) the slot-discretised
                    # interruption plan lets later items overtake one that stopped mid-belt, and with enough followers it is never
                    # released; on-grid geometries never show this on the unchanged tree
                    flag = "never_offered_offgrid"
        res.violate((kind, acc, what, direction, flag),
                    "item #%d: %s instant %s in the implementation, %s in the kinematic model (first deviation at t=%s)" % (
                        i, "admission" if what == "admit" else "offer", a, b, t))
    return res


def structural_flag(case, r, m, d):
    t, what, direction, i, a, b = d
    # a retrieval that was granted and is collected only later (model or implementation) began before the deviation
    if any(h <= t + 1e-9 for h in list(m.get("held", ())) + list(getattr(r, "t_grant_get", ()))):
        return "held_retrieval"
    if not m["stall"]:
        return "no_stall"
    # was the belt stalled (an offered item waiting) in the model at time t?
    stalled = False
    for j, to in m["offer"].items():
        tg = m["got"].get(j)
        if to <= t + 1e-9 and (tg is None or tg >= t - 1e-9) and (tg is None or tg > to + 1e-9):
            stalled = True
    return "during_stall" if stalled else "after_stall"
