"""C20 - every valid model runs to completion (no crash, no zero-time livelock); invalid ones are rejected."""
import copy

from hypothesis import strategies as st

from ..common import Result
from ..harness_factory import FactoryRun, FOracle, exception_signature
from .. import gen_factory

PROP = "C20"
ENGINE = "F"
RULE = ("Engine F: generated factories over the widest grammar (sources, machines, pack/unpack lines, sinks; every edge "
        "independently Buffer(FIFO/LIFO, delay)/Fleet/continuous/slotted conveyor; blocking flags; all selection policies; "
        "zero delays; generated construction and connect order), run to T under a step loop with an event bound per "
        "timestamp: any exception escaping env.step() or > 20000 events in one instant is a violation, bucketed by "
        "(exception type, innermost factorysimpy file:function) / ('livelock', ...). Plus generated invalid configurations "
        "(capacity <= 0 / non-int, unknown buffer mode, negative delay, non-blocking source with inter-arrival 0, node without "
        "required edges, out-of-range constant index): completing silently is the violation. Plus (a fifth of the cases) Engine S: "
        "well-formed operation histories on every store and edge class - what the nodes of some valid model do to one edge, including "
        "same-instant refills and cancels no small factory produces: no operation made with a live reservation of the caller and no "
        "library process may raise (same crash buckets). Non-trivial: factory has >= 2 "
        "different edge kinds and a zero delay or same-instant tie (>= 2 store operations on different edges in one instant); "
        "history with >= 6 put/get/cancel operations.")
RULE += (" Two in ten flow-shaped factories also contain rework loops (a machine feeding itself or a machine of an earlier layer through a "
         "Buffer / Fleet edge with a strictly positive delay / transit time, so no zero-time cycle exists); machine oracles work per visit, not per item. "
         "One in ten factories is a chain or a rows x cols mesh built by the helpers of factorysimpy.constructs (the harness hands them factories "
         "as node / edge classes and checks the wiring they produce against the documented topology).")
ASSUMPTIONS = ["valid domain = constructor signatures and parameter documentation"]

PROFILE = {"cycles": 2, "constructs": 1, "conveyors": True, "conveyor_to_sink": True, "conveyor_weight": 1, "pack": 2}
INVALID_KINDS = ["capacity_zero", "capacity_negative", "capacity_float", "buffer_mode", "negative_delay_edge",
                 "negative_delay_node", "negative_iat", "nonblocking_zero_iat", "missing_in_edge", "missing_out_edge",
                 "const_index_out_of_range_out", "const_index_out_of_range_in"]


def examples(tier):
    return 16000 if tier == "quick" else 320000


def _mk_invalid(t):
    spec0, k, pick = t
    for j in range(len(INVALID_KINDS)):      # construction: first applicable kind from k on
        r = _mk_invalid_kind(copy.deepcopy(spec0), INVALID_KINDS[(k + j) % len(INVALID_KINDS)], pick)
        if r is not None:
            return r
    return None


def _mk_invalid_kind(spec, kind, pick):
    nodes, edges = spec["nodes"], spec["edges"]
    inv = {"kind": kind}

    def choose(seq):
        return seq[pick % len(seq)] if seq else None
    if kind in ("capacity_zero", "capacity_negative", "capacity_float"):
        e = choose([e for e in edges if e["kind"] in ("Buffer", "Fleet", "SlottedConveyor")])
        if e is None:
            return None
        e["capacity"] = {"capacity_zero": 0, "capacity_negative": -1 - pick % 3, "capacity_float": 2.5}[kind]
        inv["where"] = e["id"]
    elif kind == "buffer_mode":
        e = choose([e for e in edges if e["kind"] == "Buffer"])
        if e is None:
            return None
        e["mode"] = ["FILO", "fifo", "RANDOM", ""][pick % 4]
        inv["where"] = e["id"]
    elif kind == "negative_delay_edge":
        e = choose([e for e in edges if e["kind"] == "Buffer"])
        if e is None:
            return None
        e["delay"] = {"kind": ["const", "callable", "generator"][pick % 3], "values": [-0.5]}
        inv["where"] = e["id"]
        inv["needs_use"] = True
    elif kind == "negative_delay_node":
        n = choose([n for n in nodes if n["type"] in ("Machine", "Splitter", "Combiner")])
        if n is None:
            return None
        n["delay"] = {"kind": ["const", "callable", "generator"][pick % 3], "values": [-1]}
        inv["where"] = n["id"]
        inv["needs_use"] = True
    elif kind == "negative_iat":
        n = choose([n for n in nodes if n["type"] == "Source"])
        n["iat"] = {"kind": ["const", "callable", "generator"][pick % 3], "values": [-1]}
        inv["where"] = n["id"]
    elif kind == "nonblocking_zero_iat":
        n = choose([n for n in nodes if n["type"] == "Source"])
        # int zero, float zero, and a callable / generator whose every answer is zero
        variant = pick % 4
        n["iat"] = [{"kind": "const", "values": [0]}, {"kind": "const", "values": [0.0]},
                    {"kind": "callable", "values": [0]}, {"kind": "generator", "values": [0.0]}][variant]
        n["blocking"] = False
        inv["where"] = n["id"]
        inv["variant"] = ["int0", "float0", "callable0", "generator0"][variant]
    elif kind in ("missing_in_edge", "missing_out_edge"):
        # add a node that lacks a required edge
        if kind == "missing_in_edge":
            nid = "MX"
            nodes.append({"id": nid, "type": "Machine", "work_capacity": 1, "setup": 0, "blocking": True,
                          "delay": {"kind": "const", "values": [1]}, "in_sel": "FIRST_AVAILABLE", "out_sel": "FIRST_AVAILABLE"})
            snk = choose([n for n in nodes if n["type"] == "Sink"])
            edges.append({"id": "EX", "kind": "Buffer", "src": nid, "dst": snk["id"], "capacity": 1, "mode": "FIFO",
                          "delay": {"kind": "const", "values": [0]}})
        else:
            nid = "MX"
            nodes.append({"id": nid, "type": "Machine", "work_capacity": 1, "setup": 0, "blocking": True,
                          "delay": {"kind": "const", "values": [1]}, "in_sel": "FIRST_AVAILABLE", "out_sel": "FIRST_AVAILABLE"})
            src = choose([n for n in nodes if n["type"] == "Source"])
            edges.append({"id": "EX", "kind": "Buffer", "src": src["id"], "dst": nid, "capacity": 1, "mode": "FIFO",
                          "delay": {"kind": "const", "values": [0]}})
        spec["order"] = spec["order"] + [nid, "EX"]
        spec["connect"] = spec["connect"] + ["EX"]
        inv["where"] = nid
    elif kind.startswith("const_index_out_of_range"):
        side = "out_sel" if kind.endswith("_out") else "in_sel"
        n = choose([n for n in nodes if side in n])
        if n is None:
            return None
        cnt = sum(1 for e in edges if (e["src"] if side == "out_sel" else e["dst"]) == n["id"])
        n[side] = {"const": cnt + pick % 2} if pick % 3 else {"const": -1 - pick % 2}
        inv["where"] = n["id"]
        inv["needs_use"] = True
    spec["invalid"] = inv
    return spec


def strategy(tier):
    valid = gen_factory.factories(PROFILE)
    valid_k1 = gen_factory.factories(dict(PROFILE, nb_to_conveyor=True))
    valid_k7 = gen_factory.factories(dict(PROFILE, fleet_zero_delay=True, conveyors=False, edge_kinds=["Buffer", "Fleet", "Fleet"]))
    valid_conv = gen_factory.factories(dict(PROFILE, conveyor_weight=3, pack=0, edge_kinds=["Buffer", "Buffer", "Fleet"]))
    valid_fleet = gen_factory.factories(dict(PROFILE, conveyors=False, pack=1, edge_kinds=["Buffer", "Fleet", "Fleet"]))
    safe = gen_factory.factories({"pack": 1})
    invalid = st.tuples(safe, st.integers(0, 1000), st.integers(0, 1000)).map(_mk_invalid).map(
        lambda s: s if s is not None else {"skip": True})
    from .. import gen_store
    hist = gen_store.case(S_CLASSES, S_WEIGHTS, max_ops=40, macros=4, extra=9)
    return st.one_of(valid, valid, valid, valid_conv, valid_conv, valid_conv, valid_fleet, valid_fleet, valid_k1, valid_k7,
                     invalid, invalid, invalid, hist, hist, hist)


S_CLASSES = ["ReservablePriorityReqStore", "ReservableReqStore", "ReservablePriorityReqFilterStore", "BufferStore", "FleetStore",
             "Buffer", "Fleet", "SlottedConveyor", "ContinuousConveyor"]
S_WEIGHTS = {"rp": 8, "rg": 5, "put": 8, "get": 5, "cp": 2, "cg": 2, "settle": 2, "adv": 4, "peek": 2}


def shrink_candidates(case):
    if "ops" in case:
        from .. import gen_store
        yield from gen_store.shrink_candidates(case)
    else:
        yield from gen_factory.shrink_candidates(case)


def run_store(case):
    """Engine S part: a well-formed history (every put / get / cancel uses a live reservation of the calling process) is what
    the nodes of some valid model do to an edge; none of its operations and no library process may raise."""
    from ..harness_store import StoreRun, Oracle

    class CrashS(Oracle):
        def __init__(self, res):
            self.res = res
            self.n = 0

        def kernel_exception(self, h, exc):
            self.res.violate(("crash",) + exception_signature(exc),
                             "store history: a library process raised %s: %s (t=%s)" % (type(exc).__name__, str(exc)[:200], h.env.now))

        def after_op(self, h, op, outcome):
            if op[0] in ("put", "get", "cp", "cg"):
                self.n += 1
            if outcome["status"] == "exc" and not outcome.get("expected_exc"):
                exc = outcome["exc"]
                self.res.violate(("crash",) + exception_signature(exc),
                                 "store history: %s with a live reservation of the caller raised %s: %s (t=%s, op #%d)" % (
                                     op[0], type(exc).__name__, str(exc)[:200], h.env.now, h.current_op_index))
    res = Result()
    o = CrashS(res)
    h = StoreRun(case, res, [o])
    h.run()
    res.aborted = None        # the abort label only repeats the violation recorded above
    res.nontrivial = o.n >= 6
    res.classes = ["history:" + case["subject"]["cls"]]
    return res


def component_of(f, sig):
    return sig


class CrashOracle(FOracle):
    def __init__(self, res):
        self.res = res
        self.busy = {}

    def on_exception(self, f, exc):
        self.exc = exc

    def after_kernel_event(self, f):
        if f.events_this_instant > 15000:
            ap = None
        pass


def is_rejection(exc):
    # every node accepts Buffer, Fleet and both conveyor kinds on either side (after repair d920110 also the sink): nothing the
    # grammar builds is an unsupported combination, so no exception of a valid model counts as a rejection
    return False


def run_case(case):
    if "ops" in case:
        return run_store(case)
    res = Result()
    if case.get("skip"):
        res.aborted = "no_applicable_target"
        return res
    inv = case.get("invalid")
    o = CrashOracle(res)
    f = FactoryRun(case, res, [o])
    f.run()
    exc = f.build_error or f.crashed
    kinds = sorted(set(e["kind"] for e in case["edges"]))
    res.classes = ["shape:" + case.get("shape", "?")] + ["edge:" + k for k in kinds]
    if inv:
        res.classes = ["invalid:" + inv["kind"] + (":" + inv["variant"] if "variant" in inv else "")]
        if f.livelock:
            res.violate(("invalid", inv["kind"] + (":" + inv["variant"] if "variant" in inv else ""), "accepted_and_livelocks"),
                        "invalid configuration (%s at %s) was accepted and spins at t=%s (more than 20000 events in one instant)" % (
                            inv["kind"], inv.get("where"), f.env.now))
            return res
        if exc is None and not f.livelock:
            used = True
            if inv.get("needs_use"):
                # the offending parameter must have been used at least once for the obligation to exist
                used = _was_used(f, case, inv)
            if used:
                res.violate(("invalid", inv["kind"], "accepted"),
                            "invalid configuration (%s at %s) was simulated to T=%s without any error" % (
                                inv["kind"], inv.get("where"), f.T))
            else:
                res.aborted = "invalid_parameter_never_used"
        else:
            res.nontrivial = True
        return res
    # valid
    zero = _has_zero_delay(case)
    ties = _has_ties(f)
    if len(kinds) >= 2 and (zero or ties):
        res.nontrivial = True
    if f.livelock:
        res.violate(("livelock", _dominant(f)), "more than %d kernel events at t=%s without the clock advancing" % (
            20000, f.env.now))
    elif exc is not None:
        if is_rejection(_root(exc)):
            res.classes.append("explicit_rejection")
        else:
            sig = exception_signature(exc)
            res.violate(("crash",) + sig, "%s: %s (t=%s)" % (type(exc).__name__, str(exc)[:200], f.env.now))
    return res


def _root(exc):
    seen = set()
    e = exc
    while e is not None and id(e) not in seen:
        seen.add(id(e))
        nxt = e.__cause__ or e.__context__
        if nxt is None:
            return e
        e = nxt
    return exc


def _dominant(f):
    if any(e["kind"] == "Fleet" and e.get("delay") == 0 for e in f.spec["edges"]):
        return "Fleet(delay=0)"
    return _dominant_by_ledger(f)


def _dominant_by_ledger(f):
    # component class with most ledger entries at the spinning instant, else the edge kinds with zero delay
    now = f.env.now
    cnt = {}
    for e in f.ledger[-2000:]:
        if e.t == now:
            k = f.edge_spec[e.edge]["kind"]
            cnt[k] = cnt.get(k, 0) + 1
    if cnt:
        return max(cnt, key=cnt.get)
    fl = [e for e in f.spec["edges"] if e["kind"] == "Fleet" and e.get("delay") == 0]
    if fl:
        return "Fleet(delay=0)"
    return "unknown"


def _has_zero_delay(case):
    for n in case["nodes"]:
        for k in ("delay", "iat"):
            if k in n and any(v == 0 for v in n[k].get("values", [])):
                return True
    for e in case["edges"]:
        d = e.get("delay")
        if isinstance(d, dict) and any(v == 0 for v in d.get("values", [])):
            return True
        if e.get("transit") == 0:
            return True
    return False


def _has_ties(f):
    last = None
    for e in f.ledger:
        if e.op in ("put", "get"):
            if last is not None and last[0] == e.t and last[1] != e.edge:
                return True
            last = (e.t, e.edge)
    return False


def _was_used(f, case, inv):
    where = inv.get("where")
    kind = inv["kind"]
    if kind == "negative_delay_edge":
        return any(e.edge == where and e.op == "put" for e in f.ledger) or any(
            e.edge == where and e.op == "rp" and e.tok.triggered for e in f.ledger if e.tok is not None) and False
    if kind == "negative_delay_node":
        ins = [e["id"] for e in case["edges"] if e["dst"] == where]
        pulled = sum(1 for e in f.ledger if e.edge in ins and e.op == "get" and e.exc is None)
        node = next(n for n in case["nodes"] if n["id"] == where)
        if node["type"] == "Combiner":
            # a combiner draws its delay only when a pallet and all its ingredients have been pulled
            need = 1 + sum(node.get("recipe", [1])[1:len(ins)])
            return pulled >= need
        return pulled >= 1
    if kind.startswith("const_index_out_of_range"):
        # reset() validates constants before the first item: always "used" once the node has started
        return True
    return True
