"""C17 - state-time accounting partitions elapsed time and reflects actual activity."""
from ..common import Result
from ..harness_factory import FactoryRun, FOracle
from ..fanalysis import NodeBook
from .. import gen_factory

PROP = "C17"
ENGINE = "F"
RULE = ("Engine F: generated factories, all node types, node_setup_time >= 0, end times round / non-round / before the first "
        "item / before set-up ends, delays incl. non-dyadic values, workloads idle / saturated / blocked / discarding. Oracle "
        "after update_final_state_time(T): every total >= 0; totals add up to T (machine: each of the two documented state "
        "groups and the worker-occupancy histogram); set-up total == min(setup, T); activity: integrals of the indicator "
        "functions defining IDLE / PROCESSING / BLOCKED states, computed from ledger pull instants, recorded delay draws and "
        "push instants, equal the reported totals (tolerance 1e-9*max(1,T)). Non-trivial: some node was in >= 3 distinct "
        "states during the run and T is not a multiple of every delay.")
RULE += (" Two in ten flow-shaped factories also contain rework loops (a machine feeding itself or a machine of an earlier layer through a "
         "Buffer / Fleet edge with a strictly positive delay / transit time, so no zero-time cycle exists); machine oracles work per visit, not per item.")
ASSUMPTIONS = ["tolerance 1e-9*max(1,T) on sums of state times",
               "a non-blocking node's discarded item leaves at its ready instant (C09)"]

PROFILE = {"cycles": 2, "conveyors": False, "pack": 3, "finite": 3, "setup": True}
TOL = 1e-9


def examples(tier):
    return 8000 if tier == "quick" else 240000


def _vary_T(t):
    spec, k = t
    if k % 7 == 0:
        spec = dict(spec, T=[0.3, 1.7, 3.3, 0.5, 2.0][k % 5])
    return spec


def strategy(tier):
    from hypothesis import strategies as st
    return st.tuples(gen_factory.factories(PROFILE), st.integers(0, 1000)).map(_vary_T)


shrink_candidates = gen_factory.shrink_candidates


def near(a, b, T):
    return abs(a - b) <= TOL * max(1.0, T) * 10


def integrate(intervals_proc, intervals_blk, lo, hi):
    """returns dict of integrals over [lo,hi] of indicator functions of (n_proc, n_blk)"""
    ev = []
    for a, b in intervals_proc:
        a, b = max(a, lo), min(b, hi)
        if b > a:
            ev.append((a, 1, 0))
            ev.append((b, -1, 0))
    for a, b in intervals_blk:
        a, b = max(a, lo), min(b, hi)
        if b > a:
            ev.append((a, 0, 1))
            ev.append((b, 0, -1))
    ev.sort(key=lambda x: x[0])
    out = {"idle": 0.0, "any_proc": 0.0, "all_blk": 0.0, "all_proc": 0.0, "any_blk": 0.0}
    t = lo
    p = b_ = 0
    i = 0
    n = len(ev)
    while True:
        nxt = ev[i][0] if i < n else hi
        dt = nxt - t
        if dt > 0:
            if p == 0 and b_ == 0:
                out["idle"] += dt
            if p > 0:
                out["any_proc"] += dt
            if p == 0 and b_ > 0:
                out["all_blk"] += dt
            if p > 0 and b_ == 0:
                out["all_proc"] += dt
            if b_ > 0:
                out["any_blk"] += dt
            t = nxt
        if i >= n:
            break
        p += ev[i][1]
        b_ += ev[i][2]
        i += 1
    return out


class AccountingOracle(FOracle):
    def __init__(self, res, book):
        self.res = res
        self.book = book
        self.states_seen = {}

    def start(self, f):
        self.kinds = {nid: f.node_spec[nid]["type"] for nid in f.nodes}

    def delay_of(self, f, nid, j):
        src = f.sources.get((nid, "delay"))
        if src is None:
            return None
        if src.kind == "const":
            return src.values[0]
        return src.log[j][2] if j < len(src.log) else None

    def finish(self, f):
        if f.build_error or f.crashed or f.livelock or f.runaway:
            return
        T = f.T
        rich = False
        for nid, kind in self.kinds.items():
            node = f.nodes[nid]
            ns = f.node_spec[nid]
            try:
                node.update_final_state_time(T)
            except Exception as e:   # noqa
                self.res.violate((kind, "finalise_raises", type(e).__name__),
                                 "%s.update_final_state_time(%s) raised %s: %s (setup=%s)" % (nid, T, type(e).__name__, e, ns.get("setup", 0)))
                continue
            tot = node.stats["total_time_spent_in_states"]
            neg = [k for k, v in tot.items() if v < -TOL]
            if neg:
                self.res.violate((kind, "negative"), "%s: negative state total %s=%s" % (nid, neg[0], tot[neg[0]]))
                continue
            setup = ns.get("setup", 0) if kind != "Source" else 0
            if kind == "Machine":
                ga = tot["SETUP_STATE"] + tot["IDLE_STATE"] + tot["ATLEAST_ONE_PROCESSING_STATE"] + tot["ALL_ACTIVE_BLOCKED_STATE"]
                gb = tot["SETUP_STATE"] + tot["IDLE_STATE"] + tot["ALL_ACTIVE_PROCESSING_STATE"] + tot["ATLEAST_ONE_BLOCKED_STATE"]
                if not near(ga, T, T):
                    self.res.violate((kind, "group_a"), "%s: SETUP+IDLE+ATLEAST_ONE_PROCESSING+ALL_ACTIVE_BLOCKED = %r, T = %r (%s)" % (nid, ga, T, tot))
                    continue
                if not near(gb, T, T):
                    self.res.violate((kind, "group_b"), "%s: SETUP+IDLE+ALL_ACTIVE_PROCESSING+ATLEAST_ONE_BLOCKED = %r, T = %r (%s)" % (nid, gb, T, tot))
                    continue
                occ = sum(node.time_per_work_occupancy)
                if not near(occ, T, T):
                    self.res.violate((kind, "occupancy"), "%s: worker-occupancy histogram sums to %r, T = %r" % (nid, occ, T))
                    continue
            else:
                s = sum(tot.values())
                if not near(s, T, T):
                    self.res.violate((kind, "sum"), "%s: state totals %s add up to %r, T = %r" % (nid, tot, s, T))
                    continue
            if kind in ("Machine", "Splitter", "Combiner"):
                if not near(tot["SETUP_STATE"], min(setup, T), T):
                    self.res.violate((kind, "setup"), "%s: SETUP_STATE total %r, set-up time %r, T %r" % (nid, tot["SETUP_STATE"], setup, T))
                    continue
            # ------------------------------------------------------------- activity
            if kind == "Machine":
                proc, blk = [], []
                for j, (t, k, item, ei, eid) in enumerate(self.book.pulls[nid]):
                    d = self.delay_of(f, nid, j)
                    if d is None:
                        continue
                    tr = t + d
                    proc.append((t, tr))
                    tp = self.book.push_of_pull.get((nid, j))
                    if tp is not None:
                        blk.append((tr, tp[0]))
                    elif ns.get("blocking", True):
                        blk.append((tr, T))
                I = integrate(proc, blk, min(setup, T), T)
                exp = {"IDLE_STATE": I["idle"], "ATLEAST_ONE_PROCESSING_STATE": I["any_proc"], "ALL_ACTIVE_BLOCKED_STATE": I["all_blk"],
                       "ALL_ACTIVE_PROCESSING_STATE": I["all_proc"], "ATLEAST_ONE_BLOCKED_STATE": I["any_blk"]}
                for st_, val in exp.items():
                    if not near(tot[st_], val, T):
                        self.res.violate((kind, "activity:" + st_),
                                         "%s: %s reported %r, but the ledger shows %r (T=%r, setup=%r)" % (nid, st_, tot[st_], val, T, setup))
                        break
                if sum(1 for v in (I["idle"], I["any_proc"], I["any_blk"]) if v > 0) >= 3:
                    rich = True
            elif kind == "Source":
                blocked = 0.0
                if ns.get("blocking", True):
                    src = f.sources[(nid, "iat")]
                    if src.kind == "const":
                        continue     # generation instants of a blocked constant source are not observable from outside
                    gens = [c[0] + c[2] for c in src.log if c[0] + c[2] <= T]
                    pushes = self.book.pushes[nid]
                    for i, g in enumerate(gens):
                        blocked += (pushes[i][0] if i < len(pushes) else T) - g
                if not near(tot["BLOCKED_STATE"], blocked, T):
                    self.res.violate((kind, "activity:BLOCKED_STATE"),
                                     "%s: BLOCKED_STATE reported %r, generation->push waits add up to %r (T=%r)" % (nid, tot["BLOCKED_STATE"], blocked, T))
                elif blocked > 0 and tot["GENERATING_STATE"] > 0:
                    rich = rich or False
            elif kind in ("Splitter", "Combiner"):
                proc, blk = self.unit_intervals(f, nid, kind, T)
                if proc is None:
                    continue
                I = integrate(proc, blk, min(setup, T), T)
                exp = {"IDLE_STATE": I["idle"], "PROCESSING_STATE": I["any_proc"], "BLOCKED_STATE": I["all_blk"]}
                for st_, val in exp.items():
                    if not near(tot[st_], val, T):
                        self.res.violate((kind, "activity:" + st_),
                                         "%s: %s reported %r, but the ledger shows %r (T=%r, setup=%r, totals %s)" % (nid, st_, tot[st_], val, T, setup, tot))
                        break
                if sum(1 for v in (I["idle"], I["any_proc"], I["all_blk"]) if v > 0) >= 3:
                    rich = True
        delays = set()
        for n in f.spec["nodes"]:
            for key in ("delay", "iat"):
                if key in n:
                    delays.update(v for v in n[key]["values"] if v > 0)
        nonmult = any(abs((T / d) - round(T / d)) > 1e-6 for d in delays) if delays else False
        self.res.nontrivial = bool(rich and nonmult)

    def unit_intervals(self, f, nid, kind, T):
        ns = f.node_spec[nid]
        blocking = ns.get("blocking", True)
        pulls = self.book.pulls[nid]
        proc, blk = [], []
        if kind == "Splitter":
            for j, (t, k, pallet, ei, eid) in enumerate(pulls):
                d = self.delay_of(f, nid, j)
                if d is None:
                    return None, None
                tr = t + d
                proc.append((t, tr))
                tp = self.book.t_push.get((nid, id(pallet)))
                if tp is not None:
                    blk.append((tr, tp[0]))
                elif blocking:
                    blk.append((tr, T))
                else:
                    # non-blocking: the emission phase has no duration unless an emission waited (it must not)
                    pass
            return proc, blk
        # Combiner: processing from max(last ingredient, previous pallet pushed) for d, blocked until pushed
        recipe = ns["recipe"]
        need = sum(recipe[1:len(f.in_edge_ids(nid))])
        units = []
        cur = None
        cnt = 0
        for (t, k, item, ei, eid) in pulls:
            if ei == 0:
                cur = [item, t]
                cnt = 0
                if need == 0:
                    units.append(cur)
            else:
                cnt += 1
                if cur is not None:
                    cur[1] = t
                    if cnt == need:
                        units.append(cur)
        prev_end = None
        for j, (pallet, tl) in enumerate(units):
            d = self.delay_of(f, nid, j)
            if d is None:
                return None, None
            start = tl if prev_end is None else max(tl, prev_end)
            tr = start + d
            proc.append((start, tr))
            tp = self.book.t_push.get((nid, id(pallet)))
            if tp is not None:
                blk.append((tr, tp[0]))
                prev_end = tp[0]
            elif blocking:
                blk.append((tr, T))
                break
            else:
                prev_end = tr
        return proc, blk


def run_case(case):
    res = Result()
    book = NodeBook()
    o = AccountingOracle(res, book)
    f = FactoryRun(case, res, [book, o])
    f.run()
    res.classes += ["shape:" + case.get("shape", "?"), "T<=3.3" if case["T"] <= 3.3 else "T>3.3"]
    if f.crashed or f.build_error:
        res.aborted = "crash:%s" % type(f.crashed or f.build_error).__name__
    if f.livelock:
        res.aborted = "livelock"
    return res
