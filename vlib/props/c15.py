"""C15 - edge-selection policies are obeyed exactly and recorded truthfully."""
from ..common import Result
from ..harness_factory import FactoryRun, FOracle
from ..fanalysis import NodeBook, edge_room, edge_avail, policy_class
from .. import gen_factory

PROP = "C15"
ENGINE = "F"
RULE = ("Engine F: generated factories, every node type with 1-4 in/out edges, policies ROUND_ROBIN, RANDOM, "
        "FIRST_AVAILABLE, constant index, harness callable / generator (answers drawn by Hypothesis, in a sub-profile also "
        "out of range and negative), congestion that makes the chosen or lower-index edges unavailable. Oracle per node and "
        "side from the outside ledger: in side - the sequence of edges pulled from equals the sequence of answers "
        "(callable/generator: consulted once per item, at most one answer outstanding), equals 0,1,..,n-1 cyclically "
        "(ROUND_ROBIN), is constant (constant), and equals the recorded stats list; out side - same per finished item "
        "(items finishing in one instant are matched as a multiset); FIRST_AVAILABLE (blocking): when the node commits to "
        "an edge every other request of that batch is cancelled in the same kernel step and none with a lower index was "
        "already granted, and none with a lower index that is withdrawn while still pending sits on a Buffer / Fleet edge able to serve "
        "(room / an available unreserved item); FIRST_AVAILABLE (non-blocking): the lowest index whose can_put() was true; recorded history == "
        "actual routing. Out-of-range answer: an exception no later than the instant of use and the item is routed nowhere. "
        "Non-trivial: >= 2 edges on a side, >= 4 items routed there, and at least once the preferred edge was unavailable.")
ASSUMPTIONS = ["Source keeps no selection history: only its routing is compared",
               "items of a multi-worker machine finishing in the same instant are matched to answers as a multiset"]

PROFILE = {"conveyors": False, "pack": 2, "finite": 2,
           "policies": ["FIRST_AVAILABLE", "ROUND_ROBIN", "ROUND_ROBIN", "RANDOM", "const", "callable", "callable", "generator", "generator"]}
PROFILE_BAD = dict(PROFILE, bad_index=True, pack=0)
# senders with several parallel edges to one slow receiver, mostly FIRST_AVAILABLE
PROFILE_PAR = dict(PROFILE, pack=0, finite=0, parallel=8, policies=["FIRST_AVAILABLE", "FIRST_AVAILABLE", "FIRST_AVAILABLE", "ROUND_ROBIN", "callable"])
# congested pack lines whose combiner / splitter chooses among several out-edges, mostly under FIRST_AVAILABLE
PROFILE_PACK = dict(PROFILE, pack=10, finite=0, split_fanin=5, policies=["FIRST_AVAILABLE", "FIRST_AVAILABLE", "FIRST_AVAILABLE", "ROUND_ROBIN", "callable"])


def examples(tier):
    return 12000 if tier == "quick" else 160000


def strategy(tier):
    from hypothesis import strategies as st
    return st.one_of(gen_factory.factories(PROFILE), gen_factory.factories(PROFILE_PAR), gen_factory.factories(PROFILE_PACK),
                     gen_factory.factories(PROFILE_BAD).map(lambda s: dict(s, bad_index_profile=True)))


shrink_candidates = gen_factory.shrink_candidates


def rr(n, m):
    return [i % n for i in range(m)]


class PolicyOracle(FOracle):
    def __init__(self, res, book):
        self.res = res
        self.book = book
        self.bad = None      # (node, what, answer, t) first out-of-range answer consulted
        self.pref_unavailable = False
        self.rich = False
        self.withdrawn_able = {}

    def sig(self, f, nid, side, clause, *more):
        ns = f.node_spec[nid]
        pol = ns.get("in_sel" if side == "in" else "out_sel", "FIRST_AVAILABLE")
        return (ns["type"], side, policy_class(pol), "blocking" if ns.get("blocking", True) else "nonblocking", clause) + more

    def start(self, f):
        self.kinds = {nid: f.node_spec[nid]["type"] for nid in f.nodes}
        # watch harness selectors for out-of-range answers
        for (owner, what), src in f.sources.items():
            if what in ("in_sel", "out_sel"):
                n = len(f.in_edge_ids(owner)) if what == "in_sel" else len(f.out_edge_ids(owner))
                orig = src.next_value

                def wrapped(orig=orig, owner=owner, what=what, n=n):
                    v = orig()
                    if not (isinstance(v, int) and 0 <= v < n) and self.bad is None:
                        self.bad = (owner, what, v, f.env.now, len(f.ledger))
                    return v
                src.next_value = wrapped

    def on_entry(self, f, e):
        """FIRST_AVAILABLE, at the instant of choice: a blocking node commits to an edge and withdraws - in the same kernel
        step - a still pending request on a LOWER-index Buffer / Fleet edge although that edge is able to serve (room / an
        available unreserved item)"""
        if e.exc is not None or e.op not in ("put", "get", "cp", "cg"):
            return
        side = "out" if e.op in ("put", "cp") else "in"
        nid = f.edge_spec[e.edge]["src" if side == "out" else "dst"]
        ns = f.node_spec[nid]
        if self.kinds.get(nid) not in ("Machine", "Splitter", "Combiner", "Source", "Sink"):
            return
        pol = ns.get("out_sel" if side == "out" else "in_sel", "FIRST_AVAILABLE")
        if pol != "FIRST_AVAILABLE" or (side == "out" and not ns.get("blocking", True)):
            return
        if side == "in" and self.kinds[nid] == "Combiner":
            return
        idx = self.book.out_idx if side == "out" else self.book.in_idx
        i = idx.get((nid, e.edge))
        if i is None:
            return
        key = (nid, side, id(e.proc))
        if e.op in ("cp", "cg"):
            if e.was_triggered or f.edge_spec[e.edge]["kind"] not in ("Buffer", "Fleet"):
                return
            able = edge_room(f, e.edge) if side == "out" else edge_avail(f, e.edge)
            if able > 0:
                self.withdrawn_able.setdefault(key, []).append((e.k, i, e.edge, able))
            return
        for (k, li, eid, able) in self.withdrawn_able.get(key, []):
            if k == e.k and li < i:
                self.res.violate(self.sig(f, nid, side, "first_available", "lower_index_able_to_serve"),
                                 "%s used edge index %d (%s) at t=%s and withdrew its still pending request on index %d (%s) although that edge "
                                 "%s" % (nid, i, e.edge, e.t, li, eid,
                                         "had room for %d" % able if side == "out" else "held %d available unreserved item(s)" % able))
                break
        self.withdrawn_able.pop(key, None)

    def delay_of(self, f, nid, j):
        src = f.sources.get((nid, "delay"))
        if src is None:
            return None
        if src.kind == "const":
            return src.values[0]
        return src.log[j][2] if j < len(src.log) else None

    # ------------------------------------------------------------------ first-available batches
    def check_first_available(self, f, nid, side):
        """ledger-only: at each commit (get/put by this node) all sibling requests of the batch are cancelled in the
        same kernel step, and no sibling with a lower edge index was already granted."""
        op_r, op_u, op_c = ("rg", "get", "cg") if side == "in" else ("rp", "put", "cp")
        idx = self.book.in_idx if side == "in" else self.book.out_idx
        mine = [e for e in f.ledger if e.exc is None and e.op in (op_r, op_u, op_c)
                and (f.edge_spec[e.edge]["dst" if side == "in" else "src"] == nid)]
        by_tok = {}
        for e in mine:
            by_tok.setdefault(id(e.tok), []).append(e)
        # batches: requests issued by one process in one kernel step
        batches = {}
        for e in mine:
            if e.op == op_r:
                batches.setdefault((id(e.proc), e.k), []).append(e)
        for key, reqs in batches.items():
            used = [r for r in reqs if any(x.op == op_u for x in by_tok[id(r.tok)])]
            if not used:
                continue
            u = used[0]
            ue = next(x for x in by_tok[id(u.tok)] if x.op == op_u)
            ui = idx[(nid, u.edge)]
            if ui > 0:
                self.pref_unavailable = True
            for r in reqs:
                if r is u:
                    continue
                cs = [x for x in by_tok[id(r.tok)] if x.op == op_c]
                if not cs or cs[0].k > ue.k:     # withdrawn at the choice, i.e. no later than the commit
                    self.res.violate(self.sig(f, nid, side, "first_available", "sibling_not_cancelled"),
                                     "%s committed to %s at t=%s but its request on %s was %s" % (
                                         nid, u.edge, ue.t, r.edge, "never cancelled" if not cs else "cancelled at t=%s" % cs[0].t))
                    return
                if idx[(nid, r.edge)] < ui and cs[0].was_triggered:
                    self.res.violate(self.sig(f, nid, side, "first_available", "lower_index_was_granted"),
                                     "%s used edge index %d (%s) at t=%s although its request on index %d (%s) was already granted" % (
                                         nid, ui, u.edge, ue.t, idx[(nid, r.edge)], r.edge))
                    return

    # ------------------------------------------------------------------ finish
    def finish(self, f):
        if f.build_error:
            return
        bad = self.bad
        if bad is not None:
            owner, what, v, t, nled = bad
            ok = f.crashed is not None and f.env.now == t
            ns = f.node_spec[owner]
            side = "in" if what == "in_sel" else "out"
            if not ok:
                self.res.violate(self.sig(f, owner, side, "range", "accepted"),
                                 "%s: selector answered %r (valid range 0..%d) at t=%s and the simulation went on (%s)" % (
                                     owner, v, (len(f.in_edge_ids(owner)) if side == "in" else len(f.out_edge_ids(owner))) - 1, t,
                                     "crashed later at t=%s" % f.env.now if f.crashed else "no error"))
            else:
                # the item must not have been routed after the bad answer
                later = [e for e in f.ledger[nled:] if e.exc is None and e.op == ("put" if side == "out" else "get")
                         and f.edge_spec[e.edge]["src" if side == "out" else "dst"] == owner]
                sequential = not (ns["type"] == "Machine" and ns.get("work_capacity", 1) > 1 and side == "out")
                if later and sequential:      # (another worker of a multi-worker machine may push in that instant)
                    self.res.violate(self.sig(f, owner, side, "range", "routed_anyway"),
                                     "%s: selector answered %r at t=%s, yet the node moved an item on %s" % (owner, v, t, later[0].edge))
            self.res.classes.append("bad_index_consulted")
            self.res.nontrivial = True
            return
        if f.crashed or f.livelock:
            return
        for nid, kind in self.kinds.items():
            ns = f.node_spec[nid]
            node = f.nodes[nid]
            # ============================== in side
            if kind in ("Machine", "Splitter"):
                pol = ns.get("in_sel", "FIRST_AVAILABLE")
                n_in = len(f.in_edge_ids(nid))
                pulled = [p[3] for p in self.book.pulls[nid]]
                rec = list(node.stats.get("in_edge_selection", []))
                if n_in >= 2 and len(pulled) >= 4:
                    self.rich = True
                if pol == "FIRST_AVAILABLE":
                    self.check_first_available(f, nid, "in")
                    # a splitter records its choice, then waits for its worker, then pulls: one entry may be ahead
                    if rec[:len(pulled)] != pulled or len(rec) - len(pulled) not in (0, 1):
                        self.res.violate(self.sig(f, nid, "in", "history"),
                                         "%s recorded in_edge_selection=%s but pulled from %s" % (nid, rec[:12], pulled[:12]))
                else:
                    if not (len(rec) - len(pulled) in (0, 1)) or rec[:len(pulled)] != pulled:
                        self.res.violate(self.sig(f, nid, "in", "history"),
                                         "%s recorded in_edge_selection=%s but pulled from %s" % (nid, rec[:12], pulled[:12]))
                        continue
                    if pol == "ROUND_ROBIN" and rec != rr(n_in, len(rec)):
                        self.res.violate(self.sig(f, nid, "in", "sequence"), "%s ROUND_ROBIN pulled %s" % (nid, rec[:12]))
                    elif isinstance(pol, dict) and "const" in pol and any(x != pol["const"] for x in pulled):
                        self.res.violate(self.sig(f, nid, "in", "sequence"), "%s constant %d pulled %s" % (nid, pol["const"], pulled[:12]))
                    elif isinstance(pol, dict) and "const" not in pol:
                        src = f.sources[(nid, "in_sel")]
                        ans = [x[2] for x in src.log]
                        if len(ans) - len(pulled) not in (0, 1):
                            self.res.violate(self.sig(f, nid, "in", "consultations"),
                                             "%s consulted its in-edge selector %d times for %d pulled items" % (nid, len(ans), len(pulled)))
                        elif ans[:len(pulled)] != pulled:
                            self.res.violate(self.sig(f, nid, "in", "sequence"),
                                             "%s selector answered %s but items were pulled from %s" % (nid, ans[:12], pulled[:12]))
            if kind == "Sink":
                self.check_first_available(f, nid, "in")
            # ============================== out side
            if kind in ("Machine", "Splitter", "Combiner", "Source"):
                pol = ns.get("out_sel", "FIRST_AVAILABLE")
                n_out = len(f.out_edge_ids(nid))
                pushes = self.book.pushes[nid]
                pushed = [p[3] for p in pushes]
                rec = list(node.stats.get("out_edge_selection", [])) if kind != "Source" else None
                blocking = ns.get("blocking", True)
                if n_out >= 2 and len(pushed) >= 4:
                    self.rich = True
                if pol == "FIRST_AVAILABLE":
                    if blocking:
                        self.check_first_available(f, nid, "out")
                    if rec is not None and rec != pushed:
                        self.res.violate(self.sig(f, nid, "out", "history"),
                                         "%s recorded out_edge_selection=%s (%d entries) but pushed %d items on %s" % (
                                             nid, rec[:12], len(rec), len(pushed), pushed[:12]))
                    continue
                # consult sequence (what the node was told / what the built-in policy must answer)
                if isinstance(pol, dict) and "const" in pol:
                    if any(x != pol["const"] for x in pushed):
                        self.res.violate(self.sig(f, nid, "out", "sequence"), "%s constant %d pushed on %s" % (nid, pol["const"], pushed[:12]))
                    if rec is not None and any(x != pol["const"] for x in rec):
                        self.res.violate(self.sig(f, nid, "out", "history"), "%s constant %d recorded %s" % (nid, pol["const"], rec[:12]))
                    continue
                if isinstance(pol, dict):
                    log = f.sources[(nid, "out_sel")].log
                    ans = [x[2] for x in log]
                    ans_t = [x[0] for x in log]
                    if rec is not None and rec != ans:
                        self.res.violate(self.sig(f, nid, "out", "history"),
                                         "%s selector answered %s but out_edge_selection recorded %s" % (nid, ans[:12], rec[:12]))
                        continue
                elif pol == "ROUND_ROBIN":
                    if rec is not None:
                        if rec != rr(n_out, len(rec)):
                            self.res.violate(self.sig(f, nid, "out", "sequence"), "%s ROUND_ROBIN recorded %s" % (nid, rec[:12]))
                            continue
                        ans = rec
                    else:
                        ans = None   # Source: judged from routing below
                    ans_t = None
                else:   # RANDOM
                    ans = rec
                    ans_t = None
                # routing vs answers
                if kind == "Source":
                    if pol == "ROUND_ROBIN":
                        # one step per generated item; discarded items (non-blocking) consume a step too
                        if blocking and pushed != rr(n_out, len(pushed)):
                            self.res.violate(self.sig(f, nid, "out", "sequence"), "%s ROUND_ROBIN pushed on %s" % (nid, pushed[:12]))
                    elif isinstance(pol, dict):
                        if blocking:
                            if len(ans) - len(pushed) not in (0, 1):
                                self.res.violate(self.sig(f, nid, "out", "consultations"),
                                                 "%s consulted its selector %d times for %d pushed items" % (nid, len(ans), len(pushed)))
                            elif ans[:len(pushed)] != pushed:
                                self.res.violate(self.sig(f, nid, "out", "sequence"),
                                                 "%s selector answered %s but pushed on %s" % (nid, ans[:12], pushed[:12]))
                        else:
                            gen = node.stats["num_item_generated"]
                            if len(ans) != gen:
                                self.res.violate(self.sig(f, nid, "out", "consultations"),
                                                 "%s consulted its selector %d times for %d generated items" % (nid, len(ans), gen))
                            else:
                                for p in pushes:
                                    a = [v for v, tt in zip(ans, ans_t) if tt == p[0]]
                                    if p[3] not in a:
                                        self.res.violate(self.sig(f, nid, "out", "sequence"),
                                                         "%s pushed on index %d at t=%s but the selector answered %s then" % (nid, p[3], p[0], a))
                                        break
                    continue
                if ans is None:
                    continue
                seq_workers = kind in ("Splitter", "Combiner") or (kind == "Machine" and node.work_capacity == 1)
                if blocking and seq_workers:
                    if len(ans) - len(pushed) not in (0, 1):
                        self.res.violate(self.sig(f, nid, "out", "consultations"),
                                         "%s took %d out-edge decisions for %d pushed items" % (nid, len(ans), len(pushed)))
                    elif ans[:len(pushed)] != pushed:
                        self.res.violate(self.sig(f, nid, "out", "sequence"),
                                         "%s decided %s but pushed on %s" % (nid, ans[:12], pushed[:12]))
                elif kind == "Machine":
                    # multiset matching per ready instant (needs consult times: harness selectors only)
                    finished = {}
                    for j, (t, k, item, ei, eid) in enumerate(self.book.pulls[nid]):
                        d = self.delay_of(f, nid, j)
                        if d is not None and t + d <= f.env.now:
                            finished.setdefault(t + d, []).append(item)
                    if ans_t is not None:
                        cons = {}
                        for v, tt in zip(ans, ans_t):
                            cons.setdefault(tt, []).append(v)
                        for tr, items in finished.items():
                            a = sorted(cons.get(tr, []))
                            if len(a) != len(items):
                                self.res.violate(self.sig(f, nid, "out", "consultations"),
                                                 "%s: %d item(s) finished at t=%s but the selector was consulted %d time(s) then" % (
                                                     nid, len(items), tr, len(a)))
                                break
                            used = sorted(self.book.out_idx[(nid, e)] for it in items
                                          for (tp, kp, x, oi, e, s) in self.book.pushes[nid] if x is it)
                            rest = list(a)
                            ok = True
                            for u in used:
                                if u in rest:
                                    rest.remove(u)
                                else:
                                    ok = False
                            if not ok:
                                self.res.violate(self.sig(f, nid, "out", "sequence"),
                                                 "%s: items finishing at t=%s were told %s but pushed on %s" % (nid, tr, a, used))
                                break
                    else:
                        total = sum(len(v) for v in finished.values())
                        disc = node.stats["num_item_discarded"]
                        if len(ans) != total:
                            self.res.violate(self.sig(f, nid, "out", "consultations"),
                                             "%s: %d items finished but %d out-edge decisions were recorded" % (nid, total, len(ans)))
                        else:
                            rest = list(ans)
                            for u in pushed:
                                if u in rest:
                                    rest.remove(u)
                                else:
                                    self.res.violate(self.sig(f, nid, "out", "sequence"),
                                                     "%s pushed on index %d more often than it decided to (%s vs %s)" % (nid, u, pushed[:12], ans[:12]))
                                    break
        # preferred edge unavailable at least once: a push later than ready is visible as a pending->granted token
        if any(t.side == "p" and t.t_grant is not None and t.t_grant > t.t_issue for t in f.toks.values()):
            self.pref_unavailable = True
        self.res.nontrivial = self.rich and self.pref_unavailable


def case_edge(case, eid):
    return next(e for e in case["edges"] if e["id"] == eid)


def run_case(case):
    res = Result()
    book = NodeBook()
    o = PolicyOracle(res, book)
    f = FactoryRun(case, res, [book, o])
    f.run()
    res.classes += ["shape:" + case.get("shape", "?")]
    for n in case["nodes"]:
        for key in ("in_sel", "out_sel"):
            if key in n:
                res.classes.append("%s:%s" % (key, policy_class(n[key])))
    # constant index out of range (bad-index profile): must be rejected before anything is routed by that node
    if case.get("bad_index_profile") and o.bad is None:
        from ..fanalysis import counts
        n_in, n_out = counts(case)
        for n in case["nodes"]:
            for key, cnt in (("in_sel", n_in), ("out_sel", n_out)):
                pol = n.get(key)
                if isinstance(pol, dict) and "const" in pol and not (0 <= pol["const"] < cnt.get(n["id"], 0)):
                    res.classes.append("bad_const_index")
                    res.nontrivial = True
                    moved = [e for e in f.ledger if e.exc is None and e.op == ("put" if key == "out_sel" else "get")
                             and case_edge(case, e.edge)["src" if key == "out_sel" else "dst"] == n["id"]]
                    if not (f.crashed or f.build_error) or moved:
                        res.violate((n["type"], "in" if key == "in_sel" else "out", "const", "-", "range", "accepted"),
                                    "%s: constant %s index %d with %d edges was not rejected" % (n["id"], key, pol["const"], cnt.get(n["id"], 0)))
                    return res
    if (f.crashed or f.build_error) and o.bad is None:
        res.aborted = "crash:%s" % type(f.crashed or f.build_error).__name__
    if f.livelock:
        res.aborted = "livelock"
    return res
