"""C04 - no lost wake-up: a servable waiting reservation that is next in line is granted at once."""
from ..common import Result
from ..harness_store import StoreRun, Oracle, FILTER_NAMES
from .. import gen_store

PROP = "C04"
ENGINE = "S"
RULE = ("Engine S histories with many waiting requests of mixed priorities on both sides, cancels of pending and "
        "granted tokens, several items turning ready / slots freed per instant. Oracle (invariant form of 'granted at "
        "the very instant'): after every call on time-less stores and at the end of every simulated instant on all "
        "stores, no space request is pending while capacity - held - granted-unused-put > 0, and no retrieval request "
        "is pending while available - granted-unused-get > 0 (filter store: obligation on the head request only, when "
        "#items matching its filter > #granted unused retrievals; belts, put side: only when the belt is empty and no admission is outstanding; slotted belts also one slot delay after the last entry when nothing waits at the exit). "
        "Non-trivial: at least one token was granted by a re-trigger (after a put/get/cancel/timer), not inside its "
        "own reserve call.")
ASSUMPTIONS = ["'at that instant' is judged when all kernel events of the timestamp are processed (DESIGN R2)",
               "availability read from public lists items / ready_items"]

WEIGHTS = {"rp": 8, "rg": 8, "put": 6, "get": 5, "cp": 3, "cg": 3, "settle": 1, "adv": 5, "peek": 1}
CLASSES = gen_store.ALL_PLAIN + gen_store.BELTS


def examples(tier):
    return 32000 if tier == "quick" else 640000


def strategy(tier):
    return gen_store.case(CLASSES, WEIGHTS, max_ops=40, macros=4, extra=6)


shrink_candidates = gen_store.shrink_candidates


def key(h, t):
    return (t.prio if h.subj.has_prio or h.subj.cls == "SlottedConveyor" else 0, t.seq)


class WakeupOracle(Oracle):
    def __init__(self, res):
        self.res = res

    def check(self, h, where):
        S = h.subj
        cap = S.capacity
        held = S.held()
        pend_p = h.pending("p")
        if pend_p:
            gp = len(h.granted("p"))
            obliged = True
            if S.is_belt and (held > 0 or gp > 0):
                # admission on a loaded belt depends on spacing / stall (C12, C13); an admission that is
                # granted but not used yet occupies the entrance (items enter one at a time)
                obliged = False
                if S.cls in ("SlottedConveyor", "SlottedBeltStore") and gp == 0 and not S.ready() and h.put_time:
                    # slotted belt with nothing at its exit: the entrance is free again exactly one slot delay after the last
                    # entry (the store's own timer: the same float addition the kernel makes)
                    last = max(h.put_time.values())
                    d = h.subj.spec.get("delay", 1)
                    if last + d <= h.env.now:
                        obliged = True
            if obliged and cap - held - gp > 0:
                self.res.violate((S.cls, "put", h.last_trigger),
                                 "space request pending although capacity=%d held=%d granted_unused_put=%d (%s, t=%s, op#%d)" % (
                                     cap, held, gp, where, h.env.now, h.current_op_index))
        pend_g = h.pending("g")
        if pend_g:
            gg = len(h.granted("g"))
            ready = S.ready()
            if S.has_filter:
                head = min(pend_g, key=lambda t: key(h, t))
                f = h.filters[head.filt]
                if f is None:
                    td = S.trigger_delay
                    match = [x for x in ready if h.env.now >= h.put_time.get(id(x), 0) + td]
                else:
                    match = [x for x in ready if f(x)]
                if len(match) > gg:
                    self.res.violate((S.cls, "get", h.last_trigger),
                                     "head retrieval request (filter %s) pending although %d matching items and only %d granted "
                                     "retrievals (%s, t=%s, op#%d)" % (FILTER_NAMES[head.filt], len(match), gg, where, h.env.now,
                                                                        h.current_op_index))
            else:
                if len(ready) - gg > 0:
                    self.res.violate((S.cls, "get", h.last_trigger),
                                     "retrieval request pending although available=%d granted_unused_get=%d (%s, t=%s, op#%d)" % (
                                         len(ready), gg, where, h.env.now, h.current_op_index))

    def after_op(self, h, op, outcome):
        S = h.subj
        if S.cls in ("ReservablePriorityReqStore", "ReservableReqStore") or (S.has_filter and S.trigger_delay == 0):
            self.check(h, "after " + op[0])

    def end_of_instant(self, h):
        self.check(h, "end of instant")

    def on_grant(self, h, t):
        if t.obs_grant != t.obs_issue + 1:
            self.res.nontrivial = True
            h.flags.add("regrant_" + t.side)


def run_case(case):
    res = Result()
    h = StoreRun(case, res, [WakeupOracle(res)])
    h.run()
    res.classes = [case["subject"]["cls"]] + sorted(h.flags)
    if res.aborted:
        res.classes.append("aborted:" + res.aborted)
    return res


def enumerate_cases(tier, shard, nshards):
    return gen_store.enumerate_histories(shard, nshards)


def enum_definition(tier):
    return gen_store.enum_definition()


is_enumerated = gen_store.is_enumerated
