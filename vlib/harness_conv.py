"""Engine K: one conveyor edge between two dummy nodes, driven by a scripted producer and a scripted
consumer that behave like library nodes (request, wait for the grant, put/get at the grant instant).

case = {"conv": {"kind": "continuous|slotted", "L":..,"il":..,"v":..,"capacity":..,"delay":..,"acc":0|1},
        "producer": [w0, w1, ...]   # wait before each admission request (after the previous put)
        "consumer": [c0, c1, ...]   # wait before each retrieval request (after the previous get)
        "T": ...}"""
import simpy

from .common import HarnessError

MAX_EVENTS_PER_INSTANT = 20000


class ConvRun:
    def __init__(self, case):
        self.case = case
        self.env = simpy.Environment()
        c = case["conv"]
        from factorysimpy.nodes.node import Node
        if c["kind"] == "continuous":
            from factorysimpy.edges.continuous_conveyor import ConveyorBelt
            self.edge = ConveyorBelt(self.env, "CV", conveyor_length=c["L"], speed=c["v"], item_length=c["il"],
                                     accumulating=c.get("acc", 1))
            self.slot_time = c["il"] / c["v"]
            self.travel_nominal = c["L"] / c["v"]
        else:
            from factorysimpy.edges.slotted_conveyor import ConveyorBelt
            self.edge = ConveyorBelt(self.env, "CV", capacity=c["capacity"], delay=c["delay"], accumulating=c.get("acc", 1))
            self.slot_time = c["delay"]
            self.travel_nominal = c["capacity"] * c["delay"]
        self.capacity = self.edge.capacity
        self.edge.connect(Node(self.env, "A"), Node(self.env, "B"))
        self.belt = self.edge.belt
        self.items = []
        self.req_put = []     # time of each admission request
        self.t_put = []       # admission (= put) instants
        self.req_get = []
        self.t_get = []       # (time, item)
        self.t_grant_get = []
        self.t_cancel_get = []
        self.t_cancel_put = []
        self.t_offer = {}     # id(item) -> first instant seen in ready_items
        self.max_occ = 0
        self.occ_gt_cap = None
        self.crashed = None
        self.livelock = False
        self.k = 0
        self.on_belt_max = 0
        self.env.process(self.producer("producer", "pcancel", "hold"))
        if case.get("producer2"):
            # a second source process on the same belt (a machine with two workers, two upstream nodes sharing an edge through
            # a user-written merge, ...): its requests queue behind / in front of the first one's in request order
            self.env.process(self.producer("producer2", "pcancel2", None))
        self.env.process(self.consumer())

    def producer(self, k_script, k_cancel, k_hold):
        from factorysimpy.helper.item import Item
        env = self.env
        il = self.case["conv"].get("il", 1)
        if self.case.get("t0"):
            yield env.timeout(self.case["t0"])
        for i, w in enumerate(self.case[k_script]):
            yield env.timeout(w)
            t_req = env.now
            self.req_put.append(t_req)
            tok = self.edge.reserve_put()
            yield tok
            pcancel = self.case.get(k_cancel)
            if pcancel and i < len(pcancel) and pcancel[i]:
                # what a FIRST_AVAILABLE fan-out node does to the out-edges it did not pick: the granted admission is
                # withdrawn zero to two kernel hops after the grant, nothing enters
                for _hop in range(int(pcancel[i]) - 1):
                    yield env.timeout(0)
                self.t_cancel_put.append(env.now)
                self.req_put.remove(t_req)      # req_put lists the requests that bring an item
                tok.resourcename.reserve_put_cancel(tok)
                continue
            hold = self.case.get(k_hold) if k_hold else None
            if hold and i < len(hold) and hold[i] > 0:
                yield env.timeout(hold[i])      # loading time between the grant and the put
            it = Item("x%d" % len(self.items))
            it.length = il
            self.items.append(it)
            self.t_put.append(env.now)
            self.edge.put(tok, it)

    def consumer(self):
        env = self.env
        chold = self.case.get("chold")
        ccancel = self.case.get("ccancel")
        if self.case.get("t0"):
            yield env.timeout(self.case["t0"])
        for j, w in enumerate(self.case["consumer"]):
            yield env.timeout(w)
            self.req_get.append(env.now)
            tok = self.edge.reserve_get()
            yield tok
            if ccancel and j < len(ccancel) and ccancel[j]:
                # what a FIRST_AVAILABLE fan-in node does to the in-edges it did not pick: the granted retrieval is
                # withdrawn in the instant of the grant, the item stays at the exit
                for _hop in range(int(ccancel[j]) - 1):
                    yield env.timeout(0)        # the node resumes through an any_of condition: one or two kernel hops later
                self.t_cancel_get.append(env.now)
                tok.resourcename.reserve_get_cancel(tok)
                continue
            if chold and j < len(chold) and chold[j] > 0:
                self.t_grant_get.append(env.now)
                yield env.timeout(chold[j])     # the destination collects the item it was handed only later
            it = self.edge.get(tok)
            self.t_get.append((env.now, it))

    def observe(self):
        now = self.env.now
        ready = self.belt.ready_items
        for x in ready:
            if id(x) not in self.t_offer:
                self.t_offer[id(x)] = now
        for (t, it) in self.t_get[len(self.t_offer) - 0:]:
            pass
        occ = len(self.belt.items) + len(ready)
        if occ > self.max_occ:
            self.max_occ = occ
        if occ > self.capacity and self.occ_gt_cap is None:
            self.occ_gt_cap = (now, occ)

    def run(self):
        env = self.env
        t0 = self.case.get("t0") or 0.0
        T = self.case.get("T", 100.0) + t0
        n_inst = 0
        while True:
            t = env.peek()
            if t > T:
                break
            if t > env.now:
                n_inst = 0
            try:
                env.step()
            except simpy.core.EmptySchedule:
                break
            except BaseException as exc:
                if isinstance(exc, (HarnessError, KeyboardInterrupt, SystemExit, MemoryError)):
                    raise
                self.crashed = exc
                break
            self.k += 1
            n_inst += 1
            self.observe()
            if n_inst > MAX_EVENTS_PER_INSTANT:
                self.livelock = True
                break
        # an item taken in the very kernel step it became ready is never seen in ready_items: offer = get instant
        for (t, it) in self.t_get:
            if id(it) not in self.t_offer or self.t_offer[id(it)] > t:
                self.t_offer[id(it)] = t
        if t0:
            # the scripts started at t0: report every instant relative to it (the conveyor's behaviour must not depend on
            # the absolute clock value); comparisons then need a tolerance of a few float spacings at t0
            self.req_put = [x - t0 for x in self.req_put]
            self.t_put = [x - t0 for x in self.t_put]
            self.req_get = [x - t0 for x in self.req_get]
            self.t_get = [(x - t0, it) for (x, it) in self.t_get]
            self.t_offer = {k: v - t0 for k, v in self.t_offer.items()}
            self.t_cancel_put = [x - t0 for x in self.t_cancel_put]
            self.t_cancel_get = [x - t0 for x in self.t_cancel_get]
            self.t_grant_get = [x - t0 for x in self.t_grant_get]
            if self.occ_gt_cap is not None:
                self.occ_gt_cap = (self.occ_gt_cap[0] - t0, self.occ_gt_cap[1])
        return self
