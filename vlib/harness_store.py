"""Engine S: interpreter for operation histories on reservable stores and store-backed edges.

A case is plain JSON (DESIGN Appendix A):
  {"subject": {...}, "actors": n, "ops": [[...], ...]}
The harness plays the part of n SimPy processes ("actors") by setting env._active_proc around each
API call (this is what simpy.Process._resume does), so that it fully controls same-instant order.
Oracles are objects with hooks; they see only the API boundary and public state."""
import simpy

from .common import HarnessError

DELAYS = [0, 0.5, 1, 1.3, 2 ** 0.5, 1.0 / 3.0]
DTS = [1, 0.5, 0.3, 2, 0.7, 1.0 / 3.0, 2 ** 0.5, 3]
KINDS = ["a", "b", "c"]
MAX_EVENTS_PER_INSTANT = 5000

TIMELESS = ("ReservablePriorityReqStore", "ReservableReqStore")
STORE_CLASSES = ("ReservablePriorityReqStore", "ReservableReqStore", "ReservablePriorityReqFilterStore",
                 "BufferStore", "FleetStore", "Buffer", "Fleet", "SlottedConveyor", "ContinuousConveyor", "SlottedBeltStore")


def _filters():
    return [
        None,
        lambda x: x.kind == "a",
        lambda x: x.kind == "b",
        lambda x: x.kind != "a",
        lambda x: x.serial % 2 == 0,
        lambda x: False,
        lambda x: True,
    ]


FILTER_NAMES = ["default", "kind==a", "kind==b", "kind!=a", "even", "never", "always"]


class Tok:
    __slots__ = ("id", "side", "actor", "prio", "filt", "ev", "t_issue", "seq", "state", "t_grant",
                 "obs_grant", "obs_issue", "granted_in_call", "item", "probe", "grant_ctx")

    def __init__(self, id, side, actor, prio, filt, ev, t_issue, seq):
        self.id = id
        self.side = side
        self.actor = actor
        self.prio = prio
        self.filt = filt
        self.ev = ev
        self.t_issue = t_issue
        self.seq = seq
        self.state = "pending"   # pending | granted | used | cancelled
        self.t_grant = None
        self.obs_grant = None
        self.obs_issue = None
        self.granted_in_call = False
        self.item = None
        self.probe = False
        self.grant_ctx = None

    @property
    def live(self):
        return self.state in ("pending", "granted")

    def __repr__(self):
        return "Tok(%s%d a%d p%s %s)" % (self.side, self.id, self.actor, self.prio, self.state)


# -------------------------------------------------------------------------------------------------
_TOTE = []


def _tote_class():
    """a user-defined flow item with container semantics: an Item subclass whose len() is the number of parts it holds -
    none at the moment, so the object is falsy"""
    if not _TOTE:
        from factorysimpy.helper.item import Item

        class Tote(Item):
            def __init__(self, id):
                super().__init__(id)
                self.parts = []

            def __len__(self):
                return len(self.parts)
        _TOTE.append(Tote)
    return _TOTE[0]


class Subject:
    """Uniform adapter over the store classes / edges."""

    def __init__(self, env, spec):
        self.env = env
        self.spec = spec
        cls = spec["cls"]
        self.cls = cls
        self.capacity = spec.get("capacity", 1)
        self.mode = spec.get("mode", "FIFO")
        self.has_prio = cls in ("ReservablePriorityReqStore", "ReservablePriorityReqFilterStore", "FleetStore", "SlottedBeltStore")
        self.has_filter = cls == "ReservablePriorityReqFilterStore"
        self.timeless = cls in TIMELESS or (cls == "ReservablePriorityReqFilterStore")
        self.edge = None
        self.delay_log = []       # values handed out by the harness delay source (edges)
        self.trigger_delay = spec.get("trigger_delay", 0)
        if cls == "ReservablePriorityReqStore":
            from factorysimpy.base.reservable_priority_req_store import ReservablePriorityReqStore
            self.store = ReservablePriorityReqStore(env, capacity=self.capacity)
        elif cls == "ReservableReqStore":
            from factorysimpy.base.reservable_req_store import ReservableReqStore
            self.store = ReservableReqStore(env, capacity=self.capacity)
        elif cls == "ReservablePriorityReqFilterStore":
            from factorysimpy.base.reservable_priority_req_filter_store import ReservablePriorityReqFilterStore
            self.store = ReservablePriorityReqFilterStore(env, capacity=self.capacity,
                                                          trigger_delay=self.trigger_delay)
        elif cls == "BufferStore":
            from factorysimpy.base.buffer_store import BufferStore
            self.store = BufferStore(env, capacity=self.capacity, mode=self.mode)
        elif cls == "FleetStore":
            from factorysimpy.base.fleet_store import FleetStore
            self.store = FleetStore(env, capacity=self.capacity, delay=spec.get("delay", 1),
                                    transit_delay=spec.get("transit", 0))
        elif cls == "SlottedBeltStore":
            # the priority-capable store behind the slotted conveyor, driven directly (the edge passes no priorities)
            from factorysimpy.base.slotted_belt_store import BeltStore
            self.slot_delay = spec.get("delay", 1)
            self.store = BeltStore(env, capacity=self.capacity, mode="FIFO", delay=self.slot_delay)
        elif cls in ("Buffer", "Fleet", "SlottedConveyor", "ContinuousConveyor"):
            from factorysimpy.nodes.node import Node
            if cls == "Buffer":
                from factorysimpy.edges.buffer import Buffer
                self.edge = Buffer(env, "E", capacity=self.capacity, delay=self._delay_source(spec),
                                   mode=self.mode)
                self.store = self.edge.inbuiltstore
            elif cls == "Fleet":
                from factorysimpy.edges.fleet import Fleet
                self.edge = Fleet(env, "E", capacity=self.capacity, delay=spec.get("delay", 1),
                                  transit_delay=spec.get("transit", 0))
                self.store = self.edge.inbuiltstore
            elif cls == "SlottedConveyor":
                from factorysimpy.edges.slotted_conveyor import ConveyorBelt
                self.edge = ConveyorBelt(env, "E", capacity=self.capacity, delay=spec.get("delay", 1),
                                         accumulating=spec.get("acc", 1))
                self.store = self.edge.belt
            else:
                from factorysimpy.edges.continuous_conveyor import ConveyorBelt
                g = spec["geometry"]
                self.edge = ConveyorBelt(env, "E", conveyor_length=g["L"], speed=g["v"],
                                         item_length=g["il"], accumulating=g.get("acc", 1))
                self.store = self.edge.belt
                self.capacity = self.edge.capacity
            a, b = Node(env, "NA"), Node(env, "NB")
            self.edge.connect(a, b)
        else:
            raise HarnessError("unknown subject class %r" % cls)
        self.is_belt = cls in ("SlottedConveyor", "ContinuousConveyor", "SlottedBeltStore")
        self.is_fleet = cls in ("FleetStore", "Fleet")
        self.is_buffer = cls in ("BufferStore", "Buffer")

    def _delay_source(self, spec):
        d = spec.get("delay", 0)
        kind = spec.get("delay_kind", "const")
        if kind == "const" and not isinstance(d, list):
            self._const_delay = d
            return d
        vals = d if isinstance(d, list) else [d]
        state = {"i": 0}
        subj = self

        def nxt():
            v = vals[state["i"] % len(vals)]
            state["i"] += 1
            subj.delay_log.append((subj.env.now, v))
            return v

        if kind == "callable":
            return nxt

        def gen():
            while True:
                yield nxt()
        return gen()

    # ---- API
    def reserve_put(self, prio):
        if self.edge is not None:
            return self.edge.reserve_put()
        if self.has_prio:
            return self.store.reserve_put(priority=prio)
        return self.store.reserve_put()

    def reserve_get(self, prio, filt):
        if self.edge is not None:
            return self.edge.reserve_get()
        if self.has_filter:
            return self.store.reserve_get(priority=prio, filter=filt)
        if self.has_prio:
            return self.store.reserve_get(priority=prio)
        return self.store.reserve_get()

    def put(self, ev, item, delay):
        if self.edge is not None:
            return self.edge.put(ev, item)
        if self.cls == "BufferStore":
            return self.store.put(ev, (item, delay))
        if self.cls == "SlottedBeltStore":
            item.conveyor_entry_time = self.env.now        # what the conveyor edge does before handing the item over
            return self.store.put(ev, (item, self.capacity * self.slot_delay))
        return self.store.put(ev, item)

    def get(self, ev):
        if self.edge is not None:
            return self.edge.get(ev)
        return self.store.get(ev)

    def cancel_put(self, ev):
        if self.edge is not None and hasattr(self.edge, "reserve_put_cancel"):
            return self.edge.reserve_put_cancel(ev)
        return self.store.reserve_put_cancel(ev)

    def cancel_get(self, ev):
        if self.edge is not None and hasattr(self.edge, "reserve_get_cancel"):
            return self.edge.reserve_get_cancel(ev)
        return self.store.reserve_get_cancel(ev)

    # ---- public state
    def in_transit(self):
        if self.cls in TIMELESS or self.has_filter:
            return []
        if self.is_fleet:
            return list(self.store.items)
        return [it[0] for it in self.store.items]

    def ready(self):
        if self.cls in TIMELESS or self.has_filter:
            return list(self.store.items)
        return list(self.store.ready_items)

    def held(self):
        return len(self.store.items) + (len(self.store.ready_items) if hasattr(self.store, "ready_items") else 0)


# -------------------------------------------------------------------------------------------------
class Oracle:
    """Hook interface.  `h` is the StoreRun."""
    def start(self, h): pass
    def after_op(self, h, op, outcome): pass      # outcome: dict(kind=..., exc=..., value=..., tok=...)
    def after_kernel_event(self, h): pass
    def end_of_instant(self, h): pass
    def kernel_exception(self, h, exc): pass
    def finish(self, h): pass


class Abort(Exception):
    def __init__(self, label):
        self.label = label


class StoreRun:
    def __init__(self, case, res, oracles):
        self.case = case
        self.res = res
        self.oracles = oracles
        self.env = simpy.Environment()
        self.subj = Subject(self.env, case["subject"])
        self.n_actors = max(1, int(case.get("actors", 1)))
        self.filters = _filters()
        self.toks = []
        self.items = []          # every item object ever created by the harness (put or not)
        self.put_items = []      # items successfully put
        self.got_items = []
        self.put_time = {}       # id(item) -> time
        self.put_delay = {}
        self.serial = 0
        self.obs = 0             # observation counter (ops + kernel events)
        self.events_this_instant = 0
        self.skipped_ops = 0
        self.executed_ops = 0
        self.flags = set()
        self.in_call = False
        self.current_op_index = -1
        self.last_trigger = "start"
        self.log = []            # human-readable trace for diagnostics
        self._park = self.env.event()
        self.actors = [self.env.process(self._actor()) for _ in range(self.n_actors + 1)]
        # the extra actor (index n_actors) is the "probe"/stranger process

    def _actor(self):
        yield self._park

    # ---------------------------------------------------------------- kernel control
    def _poll_grants(self, in_call):
        # two phases: everything that became triggered within one observation step is marked
        # granted before any oracle looks at it (otherwise "still pending" would be judged mid-step)
        new = [t for t in self.toks if t.state == "pending" and t.ev.triggered]
        for t in new:
            t.state = "granted"
            t.t_grant = self.env.now
            t.obs_grant = self.obs
            t.granted_in_call = in_call
        if not new:
            return
        for o in self.oracles:
            if hasattr(o, "on_grants"):
                o.on_grants(self, new)
            elif hasattr(o, "on_grant"):
                for t in new:
                    o.on_grant(self, t)

    def step(self):
        if self.env.peek() > self.env.now:
            self.events_this_instant = 0
        try:
            self.env.step()
        except simpy.core.EmptySchedule:
            raise HarnessError("step on empty schedule")
        except (simpy.core.StopSimulation,):
            raise
        except BaseException as e:  # exception escaping a library process
            if isinstance(e, (HarnessError, KeyboardInterrupt, SystemExit)):
                raise
            for o in self.oracles:
                o.kernel_exception(self, e)
            raise Abort("kernel_exception:%s" % type(e).__name__)
        self.obs += 1
        self.last_trigger = "timer"
        self.events_this_instant += 1
        if self.events_this_instant > MAX_EVENTS_PER_INSTANT:
            for o in self.oracles:
                if hasattr(o, "livelock"):
                    o.livelock(self)
            raise Abort("livelock")
        self._poll_grants(False)
        for o in self.oracles:
            o.after_kernel_event(self)

    def run_urgent(self):
        """A process that calls put() yields before any other process can touch the store, and the
        kernel then starts the processes spawned by put() first (Initialize events are URGENT).
        Reproduce exactly that: drain the URGENT events due now."""
        q = self.env._queue
        while q and q[0][0] <= self.env.now and q[0][1] <= 0:
            self.step()

    def settle(self):
        while self.env.peek() <= self.env.now:
            self.step()
        for o in self.oracles:
            o.end_of_instant(self)

    def advance(self, dt):
        self.settle()
        target = self.env.now + dt
        while self.env.peek() < target:
            self.step()
            if self.env.peek() > self.env.now:
                for o in self.oracles:
                    o.end_of_instant(self)
        self.env.run(until=target)
        self.events_this_instant = 0

    # ---------------------------------------------------------------- acting
    def as_actor(self, k, fn, *a):
        env = self.env
        prev = env._active_proc
        env._active_proc = self.actors[k]
        try:
            return ("ok", fn(*a))
        except BaseException as e:
            if isinstance(e, (HarnessError, KeyboardInterrupt, SystemExit, MemoryError)):
                raise
            return ("exc", e)
        finally:
            env._active_proc = prev

    def new_item(self, kind):
        from factorysimpy.helper.item import Item
        self.serial += 1
        if self.case["subject"].get("pallets"):
            from factorysimpy.helper.pallet import Pallet
            it = Pallet("i%d" % self.serial)
        elif self.case["subject"].get("totes"):
            it = _tote_class()("i%d" % self.serial)
        else:
            it = Item("i%d" % self.serial)
        it.kind = kind
        it.serial = self.serial
        it.length = self.case["subject"].get("geometry", {}).get("il", 1)
        self.items.append(it)
        return it

    def eligible(self, what):
        if what == "put":
            return [t for t in self.toks if t.side == "p" and t.state == "granted" and not t.probe]
        if what == "get":
            return [t for t in self.toks if t.side == "g" and t.state == "granted" and not t.probe]
        if what == "cp":
            return [t for t in self.toks if t.side == "p" and t.live and not t.probe]
        if what == "cg":
            return [t for t in self.toks if t.side == "g" and t.live and not t.probe]
        raise HarnessError(what)

    def pending(self, side):
        return [t for t in self.toks if t.side == side and t.state == "pending"]

    def granted(self, side):
        return [t for t in self.toks if t.side == side and t.state == "granted"]

    # ---------------------------------------------------------------- operations
    def do_op(self, op):
        k = op[0]
        S = self.subj
        outcome = {"kind": k, "status": "ok", "exc": None, "value": None, "tok": None, "skipped": False}
        if k == "rp" or k == "rg":
            actor = op[1] % self.n_actors
            prio = op[2] if S.has_prio else 0
            side = "p" if k == "rp" else "g"
            filt_id = (op[3] % len(self.filters)) if (k == "rg" and S.has_filter and len(op) > 3) else 0
            filt = self.filters[filt_id]
            if k == "rp":
                st, v = self.as_actor(actor, S.reserve_put, prio)
            else:
                st, v = self.as_actor(actor, S.reserve_get, prio, filt)
            if st == "exc":
                outcome.update(status="exc", exc=v)
            else:
                t = Tok(len(self.toks), side, actor, prio, filt_id, v, self.env.now, len(self.toks))
                t.obs_issue = self.obs
                self.toks.append(t)
                outcome["tok"] = t
                for o in self.oracles:
                    if hasattr(o, "on_issue"):
                        o.on_issue(self, t)
        elif k == "put":
            el = self.eligible("put")
            if not el:
                outcome["skipped"] = True
            else:
                t = el[op[1] % len(el)]
                delay = DELAYS[op[2] % len(DELAYS)]
                item = self.new_item(KINDS[op[3] % len(KINDS)] if len(op) > 3 else "a")
                outcome["tok"] = t
                outcome["item"] = item
                outcome["delay"] = delay
                for o in self.oracles:
                    if hasattr(o, "before_put"):
                        o.before_put(self, t, item, delay)
                st, v = self.as_actor(t.actor, S.put, t.ev, item, delay)
                if st == "exc":
                    outcome.update(status="exc", exc=v)
                    if any(item is x for x in S.in_transit() + S.ready()):
                        # the store took the item (and consumed the token) and failed afterwards
                        t.state = "used"
                        t.item = item
                        self.put_items.append(item)
                        self.put_time[id(item)] = self.env.now
                        self.put_delay[id(item)] = delay
                else:
                    outcome["value"] = v
                    t.state = "used"
                    t.item = item
                    self.put_items.append(item)
                    self.put_time[id(item)] = self.env.now
                    self.put_delay[id(item)] = delay
                self.run_urgent()
        elif k == "get":
            el = self.eligible("get")
            if not el:
                outcome["skipped"] = True
            else:
                t = el[op[1] % len(el)]
                outcome["tok"] = t
                st, v = self.as_actor(t.actor, S.get, t.ev)
                if st == "exc":
                    outcome.update(status="exc", exc=v)
                else:
                    outcome["value"] = v
                    t.state = "used"
                    t.item = v
                    self.got_items.append(v)
        elif k in ("cp", "cg"):
            el = self.eligible(k)
            if not el:
                outcome["skipped"] = True
            else:
                t = el[op[1] % len(el)]
                outcome["tok"] = t
                outcome["was"] = t.state
                fn = S.cancel_put if k == "cp" else S.cancel_get
                st, v = self.as_actor(t.actor, fn, t.ev)
                if st == "exc":
                    outcome.update(status="exc", exc=v)
                else:
                    outcome["value"] = v
                    t.state = "cancelled"
                    # the withdrawal itself may grant other requests (synchronously): oracles that keep a model of who
                    # holds what must see the release before those grants are reported
                    for o in self.oracles:
                        if hasattr(o, "on_cancel"):
                            o.on_cancel(self, t, outcome["was"])
        elif k == "peek":
            # read-only part of the public edge API: looking must not change anything (every oracle goes on as if
            # nothing had happened)
            e = S.edge
            if e is None:
                outcome["skipped"] = True
            else:
                names = {"Buffer": ["occupancy", "ready_items", "items", "can_put", "can_get"],
                         "Fleet": ["get_occupancy", "get_ready_items", "get_items", "can_put", "can_get"],
                         "ContinuousConveyor": ["occupancy", "items", "ready_items", "is_empty", "is_full", "is_stalled"],
                         "SlottedConveyor": ["belt_occupancy", "is_empty", "is_full", "is_stalled"]}.get(S.cls, [])
                for nm in names:
                    fn = getattr(e, nm, None)
                    if fn is None:
                        continue
                    st, v = self.as_actor(op[1] % self.n_actors if len(op) > 1 else 0, fn)
                    if st == "exc":
                        outcome.update(status="exc", exc=v)
                        break
        elif k == "settle":
            self.settle()
        elif k == "adv":
            self.advance(DTS[op[1] % len(DTS)])
        else:
            handled = False
            for o in self.oracles:
                if hasattr(o, "custom_op"):
                    r = o.custom_op(self, op, outcome)
                    if r:
                        handled = True
                        break
            if not handled:
                outcome["skipped"] = True
        return outcome

    def run(self):
        res = self.res
        try:
            for o in self.oracles:
                o.start(self)
            # start the parked actor processes and library background processes
            self.settle()
            for i, op in enumerate(self.case["ops"]):
                self.current_op_index = i
                self.in_call = True
                outcome = self.do_op(op)
                self.in_call = False
                if outcome["skipped"]:
                    self.skipped_ops += 1
                    self.log.append("#%d %s skipped" % (i, op))
                    continue
                self.log.append("#%d t=%s %s -> %s%s%s | transit=%s ready=%s | granted=%s pending=%s" % (
                    i, self.env.now, op, outcome["status"],
                    " tok#%d" % outcome["tok"].id if outcome.get("tok") is not None else "",
                    " val=%r" % (outcome["value"],) if outcome.get("value") is not None else (" exc=%r" % (outcome["exc"],) if outcome["exc"] is not None else ""),
                    [getattr(x, "id", x) for x in self.subj.in_transit()], [getattr(x, "id", x) for x in self.subj.ready()],
                    ["%s%d" % (t.side, t.id) for t in self.toks if t.ev.triggered and t.state in ("pending", "granted")],
                    ["%s%d" % (t.side, t.id) for t in self.toks if not t.ev.triggered and t.state == "pending"]))
                self.executed_ops += 1
                self.obs += 1
                if op[0] not in ("settle", "adv"):
                    self.last_trigger = op[0] + ("_" + outcome["was"] if "was" in outcome else "")
                if op[0] not in ("settle", "adv"):
                    self._poll_grants(True)
                for o in self.oracles:
                    o.after_op(self, op, outcome)
                if outcome["status"] == "exc" and not outcome.get("expected_exc"):
                    raise Abort("lib_exception:%s:%s" % (op[0], type(outcome["exc"]).__name__))
            self.settle()
            for o in self.oracles:
                o.finish(self)
        except Abort as a:
            res.aborted = a.label
            for o in self.oracles:
                o.finish(self)
        res.info["trace"] = self.log
        res.info["skipped_ops"] = self.skipped_ops
        res.info["executed_ops"] = self.executed_ops
        return res
