"""Shared online bookkeeping for Engine-F oracles: per-node pulls / pushes / delay draws derived from the
outside ledger (never from the nodes' own bookkeeping)."""
from .harness_factory import FOracle


class NodeBook(FOracle):
    """Keeps, per node: pulls [(t,k,item,edge_index,edge_id)], pushes [...], first-seen times per item.
    Other oracles read it; it must be first in the oracle list."""

    def start(self, f):
        self.f = f
        self.pulls = {n: [] for n in f.nodes}
        self.pushes = {n: [] for n in f.nodes}
        self.in_idx = {}
        self.out_idx = {}
        for nid, node in f.nodes.items():
            for i, e in enumerate(node.in_edges or []):
                self.in_idx[(nid, e.id)] = i
            for i, e in enumerate(node.out_edges or []):
                self.out_idx[(nid, e.id)] = i
        self.t_pull = {}    # (node, id(item)) -> (t, k)
        self.t_push = {}
        self.put_snapshot = {}   # id(entry) -> list of pallet items at the moment of the put
        self.pull_idx = {}       # (node, id(item)) -> index in pulls[node] of the item's latest pull (its current visit)
        self.push_of_pull = {}   # (node, pull index) -> (t, k) of the push that ended that visit (circular lines: an item
        #                          may visit a node more than once, so visits, not items, are the unit)
        self.held = {n: 0 for n in f.nodes}      # ledger: pulled - pushed (items by count)
        self.disc_seen = {n: 0 for n in f.nodes}

    def on_entry(self, f, e):
        if e.exc is not None:
            return
        if e.op == "get":
            N = f.edge_spec[e.edge]["dst"]
            self.pulls[N].append((e.t, e.k, e.item, self.in_idx.get((N, e.edge)), e.edge))
            self.t_pull[(N, id(e.item))] = (e.t, e.k)
            self.pull_idx[(N, id(e.item))] = len(self.pulls[N]) - 1
            self.held[N] += 1
        elif e.op == "put":
            N = f.edge_spec[e.edge]["src"]
            snap = list(e.item.items) if isinstance(getattr(e.item, "items", None), list) else None
            self.pushes[N].append((e.t, e.k, e.item, self.out_idx.get((N, e.edge)), e.edge, snap))
            self.t_push[(N, id(e.item))] = (e.t, e.k)
            j = self.pull_idx.get((N, id(e.item)))
            if j is not None and (N, j) not in self.push_of_pull:
                self.push_of_pull[(N, j)] = (e.t, e.k)
            self.held[N] -= 1


def edge_room(f, eid):
    """ledger-room of a Buffer/Fleet edge: capacity - items inside - granted-unused put tokens"""
    cap = f.edge_capacity(eid)
    held = len(f.edge_items(eid))
    g = sum(1 for t in f.toks.values() if t.edge == eid and t.side == "p" and t.state == "granted")
    return cap - held - g


def edge_avail(f, eid):
    """available unreserved items of an edge: ready - granted-unused get tokens"""
    g = sum(1 for t in f.toks.values() if t.edge == eid and t.side == "g" and t.state == "granted")
    return len(f.edge_ready(eid)) - g


def policy_class(sel):
    if isinstance(sel, str):
        return sel
    return next(iter(sel))


def counts(spec):
    n_in, n_out = {}, {}
    for e in spec["edges"]:
        n_out[e["src"]] = n_out.get(e["src"], 0) + 1
        n_in[e["dst"]] = n_in.get(e["dst"], 0) + 1
    return n_in, n_out
