"""Kinematic reference model of a conveyor (DESIGN §4 C13), co-simulated with the scripted producer and
consumer of Engine K.  Continuous positions: x = position of an item's front edge measured from the
entrance; an item is fully on the belt at x >= il and is offered to the destination at x == L.

 * every item moves at speed v unless
     - (non-accumulating) an offered item waits unreserved at the exit: everything is frozen and nothing
       is admitted,
     - (accumulating) it touches the item ahead: the k-th item behind a waiting offered item stops at
       L - k*il;
 * admission when the producer is waiting, fewer than `cap` items are on the conveyor, the last item's
   tail has cleared the entrance (x_last >= il) and (accumulating or not stalled);
 * the head is offered when its front reaches L; a waiting consumer takes it in that instant, otherwise
   the stall lasts until the consumer's next request.

A slotted conveyor is the same thing with il = 1 slot, L = capacity slots, v = 1/delay.
Returns admission, offer and get instants per item."""

EPS = 1e-9


class _Prod:
    """one scripted source of admission requests: wait script[i] after its previous request was served, then ask"""

    def __init__(self, script, pcancel, hold=None):
        self.script = list(script or [])
        self.pcancel = pcancel
        self.hold = hold
        self.loading_until = None    # a granted admission is held for a loading time: the item enters at this instant
        self.i = 0
        self.req = self.script[0] if self.script else None     # time of the next admission request
        self.waiting = False
        self.t_req = None

    def now_due(self, t):
        return self.req is not None and not self.waiting and abs(self.req - t) <= EPS * max(1.0, t)

    def ask(self, t):
        self.waiting = True
        self.t_req = self.req

    def served(self, t):
        self.waiting = False
        self.i += 1
        self.req = t + self.script[self.i] if self.i < len(self.script) else None

    def withdraws(self):
        return bool(self.pcancel and self.i < len(self.pcancel) and self.pcancel[self.i])

    def hold_time(self):
        return self.hold[self.i] if self.hold and self.i < len(self.hold) and self.hold[self.i] > 0 else 0


def simulate(L, il, v, cap, acc, producer, consumer, T, admit_first=(), chold=None, ccancel=None, pcancel=None,
             producer2=None, pcancel2=None, hold=None):
    """admit_first: collection of tie indices (in order of occurrence) resolved as 'admission before the stall'"""
    t = 0.0
    belt = []            # fronts of the items on the belt, head first (not yet offered)
    ids = []             # item indices parallel to belt
    offered = None       # index of the item waiting at the exit
    admit, offer, got = [], {}, {}
    prods = [_Prod(producer, pcancel, hold)] + ([_Prod(producer2, pcancel2)] if producer2 else [])

    def loading():
        return any(q.loading_until is not None for q in prods)

    def grant(q, t):
        """the admission of q is granted at t: withdrawn at once, held for a loading time, or used at once"""
        if q.withdraws():
            withdrawn.append(t)          # admission granted and withdrawn at once: nothing enters
            q.served(t)
        elif q.hold_time() > 0:
            q.waiting = False
            q.req = None
            q.loading_until = t + q.hold_time()    # one admission at a time: nothing else is admitted till the put
        else:
            belt.append(0.0)
            ids.append(len(admit))
            admit.append(t)
            q.served(t)

    def first_waiting():
        w = [q for q in prods if q.waiting]
        return min(w, key=lambda q: (q.t_req, prods.index(q))) if w else None
    ci = 0
    c_req = consumer[0] if consumer else None
    c_waiting = False
    stall_seen = False
    stall_with_others = False
    take_at = None       # the consumer was handed the head and collects it later (chold): the item waits at the exit till then
    withdrawn = []       # instants at which a granted admission was withdrawn at once (pcancel)
    held = []            # instants at which such a hold began
    cancelled = []       # instants at which a granted retrieval was withdrawn at once (ccancel): the item stays at the exit
    ties = []            # instants at which an admission request coincides with the head reaching the exit
    guard = 0
    while True:
        guard += 1
        if guard > 100000:
            raise RuntimeError("model did not terminate")
        stalled = offered is not None
        frozen = stalled and not acc
        # ---- candidate next events
        cands = []
        for q in prods:
            if q.req is not None and not q.waiting:
                cands.append(q.req)
            if q.loading_until is not None:
                cands.append(q.loading_until)
        p_waiting = any(q.waiting for q in prods)
        if c_req is not None and not c_waiting:
            cands.append(c_req)
        if take_at is not None:
            cands.append(take_at)
        if belt and not frozen and offered is None:
            cands.append(t + max(0.0, (L - belt[0])) / v)
        if p_waiting and len(belt) + (1 if offered is not None else 0) < cap and not frozen and not loading():
            if not belt:
                cands.append(t)
            else:
                xl = belt[-1]
                if xl >= il - EPS:
                    cands.append(t)
                else:
                    limit = L - (len(belt)) * il if stalled else None     # stop position of the last item while stalled
                    if limit is None or limit >= il - EPS:
                        cands.append(t + (il - xl) / v)
        if not cands:
            break
        tn = min(cands)
        if tn > T:
            break
        # ---- advance positions
        dt = tn - t
        if dt > 0 and belt and not frozen:
            for k in range(len(belt)):
                nx = belt[k] + v * dt
                if stalled:
                    nx = min(nx, L - (k + 1) * il)
                    nx = max(nx, belt[k])
                belt[k] = nx
        t = tn
        progressed = False
        # ---- tie resolution: an admission request that coincides (within tolerance) with the head reaching
        # the exit may be served before the stall begins
        head_arrives = bool(belt) and offered is None and belt[0] >= L - EPS * max(1.0, L)
        req_now = any(q.now_due(t) for q in prods)
        p_waiting = any(q.waiting for q in prods)
        is_tie = head_arrives and (req_now or p_waiting) and not acc
        if is_tie:
            ties.append(t)
        if is_tie and (len(ties) - 1) in admit_first:
            for q in prods:
                if q.now_due(t):
                    q.ask(t)
                    progressed = True
            st0 = offered is not None
            fr0 = st0 and not acc
            q = first_waiting()
            if q is not None and len(belt) + (1 if st0 else 0) < cap and not fr0 and (not belt or belt[-1] >= il - EPS) \
                    and not loading():
                grant(q, t)
                progressed = True
        # ---- a held admission is used: the item enters now (on a stopped belt it stays at the entrance)
        for q in prods:
            if q.loading_until is not None and q.loading_until <= t + EPS * max(1.0, t):
                q.loading_until = None
                belt.append(0.0)
                ids.append(len(admit))
                admit.append(t)
                q.served(t)
                progressed = True
        # ---- consumer request
        if c_req is not None and not c_waiting and abs(c_req - t) <= EPS * max(1.0, t):
            c_waiting = True
            progressed = True
        # ---- head reaches the exit
        if belt and offered is None and belt[0] >= L - EPS * max(1.0, L):
            offered = ids.pop(0)
            belt.pop(0)
            offer[offered] = t
            progressed = True
        # ---- consumer takes an offered item
        while c_waiting and offered is not None and take_at is None and ccancel and ci < len(ccancel) and ccancel[ci]:
            cancelled.append(t)
            c_waiting = False
            ci += 1
            c_req = t + consumer[ci] if ci < len(consumer) else None
            progressed = True
            stall_seen = True
            if belt or any(q.waiting for q in prods):
                stall_with_others = True
            if c_req is not None and abs(c_req - t) <= EPS * max(1.0, t):
                c_waiting = True
        if c_waiting and offered is not None and take_at is None and chold and ci < len(chold) and chold[ci] > 0:
            held.append(t)
            take_at = t + chold[ci]
            progressed = True
            stall_seen = True
            if belt or any(q.waiting for q in prods):
                stall_with_others = True
        if c_waiting and offered is not None and take_at is not None and take_at > t + EPS * max(1.0, t):
            pass            # still waiting at the exit for its collection
        elif c_waiting and offered is not None:
            take_at = None
            got[offered] = t
            offered = None
            c_waiting = False
            ci += 1
            c_req = t + consumer[ci] if ci < len(consumer) else None
            progressed = True
        elif offered is not None and not c_waiting:
            if not stall_seen:
                stall_seen = True
            if belt or any(q.waiting for q in prods):
                stall_with_others = True
        # ---- producer requests
        for q in prods:
            if q.now_due(t):
                q.ask(t)
                progressed = True
        # ---- admission (one per pass, in request order)
        stalled = offered is not None
        frozen = stalled and not acc
        q = first_waiting()
        if q is not None and len(belt) + (1 if stalled else 0) < cap and not frozen and (not belt or belt[-1] >= il - EPS) \
                and not loading():
            # while stalled on an accumulating belt the entrance must still be reachable
            grant(q, t)
            progressed = True
        if not progressed and dt <= 0:
            # nothing can happen any more at this instant
            nxt = [c for c in cands if c > t + EPS]
            if not nxt and not (belt and not frozen and offered is None):
                break
            if not nxt:
                break
    return {"admit": admit, "offer": offer, "got": got, "stall": stall_seen, "stall_with_others": stall_with_others,
            "ties": ties, "held": held, "cancelled": cancelled, "withdrawn": withdrawn}
