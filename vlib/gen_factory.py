"""Hypothesis strategies for Engine-F factory specs.  Hypothesis draws a vector of integers; a
deterministic decoder turns it into a structurally valid factory spec (construction, no rejection).
The case that is executed, shrunk and stored is the decoded JSON spec."""
from hypothesis import strategies as st

IAT = [0.5, 0.7, 1, 1.3, 2, 1.0 / 3.0, 0.25, 3]
DELAY = [0, 0.5, 1, 1.3, 2, 0.3, 2 ** 0.5, 0.7, 3]
TS = [10, 17.3, 25, 40, 12.5, 31.7]
GENOME = 160


class G:
    def __init__(self, ints):
        import zlib
        self.ints = ints
        self.i = 0
        # Hypothesis derives new examples by mutating parts of earlier ones; salting every choice with a
        # checksum of the whole vector makes each distinct vector a distinct factory
        self.salt = zlib.crc32(b"".join(int(v).to_bytes(2, "little") for v in ints))

    def n(self, k):
        # Hypothesis favours small integers; spread them with a fixed multiplicative hash so that the
        # decoded choices are not all "first option" (still a pure function of the drawn vector)
        x = ((self.ints[self.i % len(self.ints)] + 1 + 65537 * self.i + self.salt) * 2654435761) & 0xFFFFFFFF
        x ^= x >> 15
        self.i += 1
        return x % k

    def pick(self, seq):
        return seq[self.n(len(seq))]

    def chance(self, num, den):
        return self.n(den) < num

    def some(self, seq, lo, hi):
        return [self.pick(seq) for _ in range(lo + self.n(hi - lo + 1))]


DEFAULT_PROFILE = {
    "edge_kinds": ["Buffer", "Buffer", "Buffer", "Fleet"],   # weights by repetition
    "conveyors": False,
    "nonblocking": True,
    "policies": ["FIRST_AVAILABLE", "FIRST_AVAILABLE", "ROUND_ROBIN", "RANDOM", "const", "callable", "generator"],
    "pack": 2,            # out of 10 factories are pack/unpack lines
    "split_fanin": 2,     # out of 10 pack lines with a splitter: a second pallet source feeds the splitter directly
    "two_stage": 2,       # out of 10 pack lines: two combiners in series (the second receives loaded pallets)
    "pre_machine": 2,     # out of 10 ingredient sources of a pack line are followed by a machine
    "max_layers": 2,
    "setup": True,
    "finite": 5,          # out of 10 factories have finite input
    "zero_delays": True,
    "bad_index": False,
}


def delay_spec(g, zero=True, grid=DELAY):
    kind = g.pick(["const", "const", "callable", "generator"])
    n = 1 if kind == "const" else 1 + g.n(4)
    vals = [g.pick(grid) for _ in range(n)]
    if not zero:
        vals = [v if v > 0 else 0.5 for v in vals]
    return {"kind": kind, "values": vals}


def policy(g, prof, n_edges, allow_fa=True):
    p = g.pick(prof["policies"])
    if p == "FIRST_AVAILABLE" and not allow_fa:
        p = "ROUND_ROBIN"
    if p in ("FIRST_AVAILABLE", "ROUND_ROBIN", "RANDOM"):
        return p
    hi = n_edges + (1 if prof.get("bad_index") and g.chance(1, 6) else 0)
    # a negative answer is out of range as well (Python would wrap it silently): -1 .. -n_edges, later in the answer list
    # rather than first, so that valid routing happens before it
    neg = prof.get("bad_index") and g.chance(1, 8)
    if p == "const":
        return {"const": -(1 + g.n(n_edges)) if neg else g.n(hi)}
    vals = [g.n(hi) for _ in range(1 + g.n(4))]
    if neg:
        vals[len(vals) - 1 - g.n(min(2, len(vals)))] = -(1 + g.n(n_edges))
    return {p: vals}


def edge_spec(g, prof, eid, src, dst, kinds=None):
    kind = g.pick(kinds or prof["edge_kinds"])
    e = {"id": eid, "kind": kind, "src": src, "dst": dst}
    if kind == "Buffer":
        e["capacity"] = 1 + g.n(4)
        e["mode"] = g.pick(["FIFO", "FIFO", "LIFO"])
        e["delay"] = delay_spec(g, prof["zero_delays"])
    elif kind == "Fleet":
        e["capacity"] = 1 + g.n(4)
        e["delay"] = g.pick([0.5, 1, 2, 1.3, 3] + ([0, 0] if prof.get("fleet_zero_delay") else []))
        e["transit"] = g.pick([0, 0.5, 1, 0.3, 2])
    elif kind == "ContinuousConveyor":
        # flow items created by a Source have length 1 (its item_length default): conveyors in factories are
        # configured for that item length (a conveyor built for another item length is a modelling error)
        L, il, v = g.pick([(4, 1, 1), (3, 1, 1), (2, 1, 2), (5, 1, 0.5), (6, 1, 3), (3, 1, 2), (2, 1, 1), (4, 1, 2)])
        e.update(L=L, il=il, v=v, acc=g.n(2))
    elif kind == "SlottedConveyor":
        e.update(capacity=1 + g.n(5), delay=g.pick([1, 0.5, 2, 0.7]), acc=g.n(2))
    return e


def decode(ints, prof=None):
    p = dict(DEFAULT_PROFILE)
    if prof:
        p.update(prof)
    g = G(ints)
    if p.get("constructs") and g.n(10) < p["constructs"]:
        spec = decode_constructs(g, p)
        spec["seed"] = g.n(1000)
        spec["T"] = g.pick(TS)
        fix_policies(spec, g, p)
        return spec          # construction and connect order are the helper's
    if g.n(10) < p["pack"]:
        spec = decode_pack(g, p)
    else:
        spec = decode_flow(g, p)
    spec["seed"] = g.n(1000)
    spec["T"] = g.pick(TS)
    ids = [n["id"] for n in spec["nodes"]] + [e["id"] for e in spec["edges"]]
    # construction order: a generated permutation
    order = []
    pool = list(ids)
    while pool:
        order.append(pool.pop(g.n(len(pool))))
    spec["order"] = order
    conn = [e["id"] for e in spec["edges"]]
    if spec["shape"] != "pack" and g.chance(1, 3):   # a combiner takes pallets from its first in-edge
        c2 = []
        pool = list(conn)
        while pool:
            c2.append(pool.pop(g.n(len(pool))))
        conn = c2
    spec["connect"] = conn
    fix_policies(spec, g, p)
    if not p.get("nb_to_conveyor", False):
        # known finding K1 (ConveyorBelt.can_put/can_get read undefined attributes): non-blocking nodes in front
        # of a conveyor are excluded by construction unless the profile asks for them
        conv_src = set(e["src"] for e in spec["edges"] if e["kind"].endswith("Conveyor"))
        for n in spec["nodes"]:
            if n["id"] in conv_src and n.get("blocking") is False:
                n["blocking"] = True
    return spec


def source_spec(g, p, nid, item="item"):
    iat = delay_spec(g, zero=False, grid=IAT)
    if g.n(10) < p["finite"]:
        iat["finite_after"] = 2 + g.n(14)
    blocking = True if not p["nonblocking"] else g.chance(2, 3)
    if p["zero_delays"] and blocking and g.chance(1, 12):
        iat["values"] = [0 if i == 0 else v for i, v in enumerate(iat["values"])] if len(iat["values"]) > 1 else iat["values"]
    return {"id": nid, "type": "Source", "item": item, "blocking": blocking, "iat": iat, "out_sel": None}


def machine_spec(g, p, nid):
    return {"id": nid, "type": "Machine", "work_capacity": g.pick([1, 1, 2, 3]),
            "setup": g.pick([0, 0, 0, 0.5, 2]) if p["setup"] else 0,
            "blocking": True if not p["nonblocking"] else g.chance(2, 3),
            "delay": delay_spec(g, p["zero_delays"]), "in_sel": None, "out_sel": None}


def decode_constructs(g, p):
    """models built through the documented construct helpers (factorysimpy.constructs): a chain
    source -> buffer -> machine -> ... -> buffer -> sink, or a rows x cols mesh (every machine feeds its right and its lower
    neighbour, the source feeds the first row, the last row feeds the sink).  Node / edge ids follow the helpers' naming."""
    def buf(eid, u, v):
        return edge_spec(g, p, eid, u, v, ["Buffer"])
    if g.chance(1, 2):
        n = 1 + g.n(4)
        nodes = [dict(source_spec(g, p, "Source"))] + [machine_spec(g, p, "Node_%d" % (i + 1)) for i in range(n)] + [
            {"id": "Sink", "type": "Sink", "setup": 0}]
        ids = [x["id"] for x in nodes]
        edges = [buf("Edge_%d" % (i + 1), ids[i], ids[i + 1]) for i in range(n + 1)]
        return {"nodes": nodes, "edges": edges, "shape": "chain", "via": "chain"}
    rows, cols = g.pick([(1, 2), (2, 2), (2, 2), (2, 3), (3, 2), (3, 3), (2, 1)])
    nodes = [dict(source_spec(g, p, "Source"))]
    edges = []
    name = lambda r, c: "M_%d_%d" % (r + 1, c + 1)
    for r in range(rows):
        for c in range(cols):
            nodes.append(machine_spec(g, p, name(r, c)))
    for r in range(rows):
        for c in range(cols):
            if c + 1 < cols:
                edges.append(buf("B_%s_%s" % (name(r, c), name(r, c + 1)), name(r, c), name(r, c + 1)))
            if r + 1 < rows:
                edges.append(buf("B_%s_%s" % (name(r, c), name(r + 1, c)), name(r, c), name(r + 1, c)))
    for c in range(cols):
        edges.append(buf("B_SRC_%s" % name(0, c), "Source", name(0, c)))
    nodes.append({"id": "Sink", "type": "Sink", "setup": 0})
    for c in range(cols):
        edges.append(buf("B_%s_SINK" % name(rows - 1, c), name(rows - 1, c), "Sink"))
    return {"nodes": nodes, "edges": edges, "shape": "mesh", "via": "mesh", "rows": rows, "cols": cols}


def decode_flow(g, p):
    nodes, edges = [], []
    layers = []
    n_src = g.pick([1, 1, 2, 2, 3])
    layers.append([source_spec(g, p, "S%d" % i) for i in range(n_src)])
    for l in range(g.n(p["max_layers"] + 1)):
        w = g.pick([1, 1, 2, 3])
        layers.append([machine_spec(g, p, "M%d_%d" % (l, i)) for i in range(w)])
    n_snk = g.pick([1, 1, 2])
    layers.append([{"id": "K%d" % i, "type": "Sink", "setup": g.pick([0, 0, 1]) if p["setup"] else 0} for i in range(n_snk)])
    for L in layers:
        nodes.extend(L)
    ne = 0
    for a, b in zip(layers, layers[1:]):
        pairs = []
        for u in a:
            pairs.append((u["id"], g.pick(b)["id"]))
        for v in b:
            if not any(pv == v["id"] for _, pv in pairs):
                pairs.append((g.pick(a)["id"], v["id"]))
        for _ in range(g.n(3)):
            pr = (g.pick(a)["id"], g.pick(b)["id"])
            if pairs.count(pr) < 1 and len(pairs) < 7:
                pairs.append(pr)
        if p.get("parallel") and g.n(10) < p["parallel"] and len(pairs) < 7:
            # parallel edges between the same two nodes (a sender choosing among several edges that free together)
            pr = g.pick(pairs)
            for _ in range(1 + g.n(2)):
                if len(pairs) < 8:
                    pairs.append(pr)
        for (u, v) in pairs:
            kinds = None
            if p["conveyors"]:
                kinds = list(p["edge_kinds"])
                # a sink reads edge.inbuiltstore; non-blocking nodes probe can_put(): known conveyor findings are
                # kept out by construction unless the profile asks for them
                dst_is_sink = v.startswith("K")
                if not (dst_is_sink and not p.get("conveyor_to_sink")):
                    kinds += ["ContinuousConveyor", "SlottedConveyor"] * p.get("conveyor_weight", 1)
            edges.append(edge_spec(g, p, "E%d" % ne, u, v, kinds))
            ne += 1
    spec = {"nodes": nodes, "edges": edges, "shape": "flow"}
    machines = [(li, m["id"]) for li, L in enumerate(layers) for m in L if m["type"] == "Machine"]
    if p.get("cycles") and machines and g.n(10) < p["cycles"]:
        # the documentation allows loops and self-loops: rework edges from a machine back to itself or to a machine of
        # the same / an earlier layer (Buffer or Fleet edges)
        for _ in range(g.pick([1, 1, 2])):
            lj, u = g.pick(machines)
            back = [m for (li, m) in machines if li <= lj]
            v = g.pick(back)
            if sum(1 for e in edges if e["src"] == u) >= 4:
                continue
            be = edge_spec(g, p, "E%d" % ne, u, v, [k for k in p["edge_kinds"] if k in ("Buffer", "Fleet")] or ["Buffer"])
            if be["kind"] == "Buffer":
                # every cycle passes a rework edge: a strictly positive delay there keeps zero-time cycles (an item going
                # round for ever within one instant - a Zeno model, not a library defect) out by construction
                be["delay"] = delay_spec(g, zero=False)
            else:
                # a fleet at capacity departs without waiting: only a positive transit time keeps the cycle from being zero-time
                if be.get("delay", 1) == 0:
                    be["delay"] = 1
                if be.get("transit", 0) == 0:
                    be["transit"] = g.pick([0.5, 1, 0.3])
            edges.append(be)
            ne += 1
            if g.chance(1, 2):      # otherwise the rework edge (highest index) is used only under congestion
                next(n for n in nodes if n["id"] == u)["out_sel"] = "ROUND_ROBIN"
            if g.chance(3, 4):      # any other in-edge policy waits for the (initially empty) rework edge in its turn
                next(n for n in nodes if n["id"] == v)["in_sel"] = "FIRST_AVAILABLE"
        spec["cyclic"] = True
    return spec


def decode_pack(g, p):
    """pallet source + item sources -> combiner -> buffer -> splitter -> sink(s)"""
    nodes, edges = [], []
    n_ing = g.pick([1, 1, 2, 3])
    ps = source_spec(g, p, "P0", item="pallet")
    nodes.append(ps)
    ings = [source_spec(g, p, "S%d" % i) for i in range(n_ing)]
    nodes.extend(ings)
    recipe = [1] + [g.pick([1, 1, 2, 2, 3, 0]) for _ in range(n_ing)]
    if all(q == 0 for q in recipe[1:]):
        recipe[1] = 1
    comb = {"id": "C0", "type": "Combiner", "setup": g.pick([0, 0, 1]) if p["setup"] else 0,
            "blocking": True if not p["nonblocking"] else g.chance(3, 4),
            "delay": delay_spec(g, p["zero_delays"]), "recipe": recipe, "out_sel": None}
    nodes.append(comb)
    ne = 0
    in_kinds = ["Buffer", "Buffer", "Buffer", "Fleet"] if "Fleet" in p["edge_kinds"] else ["Buffer"]
    edges.append(edge_spec(g, p, "E%d" % ne, "P0", "C0", ["Buffer"]))
    ne += 1
    for s in ings:
        if p.get("pre_machine") and g.n(10) < p["pre_machine"]:
            # a machine between the ingredient source and the combiner: the combiner (which may hold several retrievals on one
            # in-edge) becomes the consumer of a machine's out-edge
            mid = "A" + s["id"][1:]
            nodes.append(machine_spec(g, p, mid))
            edges.append(edge_spec(g, p, "E%d" % ne, s["id"], mid, ["Buffer"]))
            ne += 1
            edges.append(edge_spec(g, p, "E%d" % ne, mid, "C0", in_kinds))
            ne += 1
            continue
        edges.append(edge_spec(g, p, "E%d" % ne, s["id"], "C0", in_kinds))
        ne += 1
    last = "C0"
    if p.get("two_stage") and g.n(10) < p["two_stage"]:
        # two combiners in series: the second one receives *loaded* pallets on its pallet edge and adds its own ingredients
        n2 = g.pick([1, 1, 2])
        ing2 = [source_spec(g, p, "T%d" % i) for i in range(n2)]
        nodes.extend(ing2)
        recipe2 = [1] + [g.pick([1, 1, 2, 0]) for _ in range(n2)]
        if all(q == 0 for q in recipe2[1:]):
            recipe2[1] = 1
        nodes.append({"id": "C1", "type": "Combiner", "setup": g.pick([0, 0, 1]) if p["setup"] else 0,
                      "blocking": True if not p["nonblocking"] else g.chance(3, 4),
                      "delay": delay_spec(g, p["zero_delays"]), "recipe": recipe2, "out_sel": None})
        edges.append(edge_spec(g, p, "E%d" % ne, "C0", "C1", ["Buffer"]))
        ne += 1
        for s_ in ing2:
            edges.append(edge_spec(g, p, "E%d" % ne, s_["id"], "C1", in_kinds))
            ne += 1
        last = "C1"
    with_split = g.chance(3, 4)
    n_mid = g.pick([1, 1, 2])
    if with_split:
        spl = {"id": "X0", "type": "Splitter", "setup": g.pick([0, 0, 1]) if p["setup"] else 0,
               "blocking": True if not p["nonblocking"] else g.chance(3, 4),
               "delay": delay_spec(g, p["zero_delays"]), "in_sel": None, "out_sel": None}
        sq = g.pick([None, None, None, 1, 2, 3])     # documented as ignored in the (default) UNPACK mode
        if sq is not None:
            spl["split_quantity"] = sq
        nodes.append(spl)
        for i in range(n_mid):
            edges.append(edge_spec(g, p, "E%d" % ne, last, "X0", ["Buffer"]))
            ne += 1
        n_snk = g.pick([1, 2, 2, 3])
        for i in range(n_snk):
            nodes.append({"id": "K%d" % i, "type": "Sink", "setup": 0})
            edges.append(edge_spec(g, p, "E%d" % ne, "X0", "K%d" % i, ["Buffer"]))
            ne += 1
        if p.get("split_fanin") and g.n(10) < p["split_fanin"]:
            # the splitter also receives (empty) pallets straight from a second pallet source: in-edges fed by
            # independent nodes, at a lower or a higher index than the combiner's
            nodes.append(source_spec(g, p, "P1", item="pallet"))
            e2 = edge_spec(g, p, "E%d" % ne, "P1", "X0", ["Buffer"])
            ne += 1
            if g.chance(1, 2):
                pos = next(i for i, e in enumerate(edges) if e["src"] == last and e["dst"] == "X0")
                edges.insert(pos, e2)
            else:
                edges.append(e2)
    else:
        n_snk = g.pick([1, 2])
        for i in range(n_snk):
            nodes.append({"id": "K%d" % i, "type": "Sink", "setup": 0})
            edges.append(edge_spec(g, p, "E%d" % ne, last, "K%d" % i, ["Buffer"]))
            ne += 1
    return {"nodes": nodes, "edges": edges, "shape": "pack"}


def fix_policies(spec, g, p):
    """policies need the final edge counts (indices refer to connect order)"""
    n_in, n_out = {}, {}
    for e in spec["edges"]:
        n_out[e["src"]] = n_out.get(e["src"], 0) + 1
        n_in[e["dst"]] = n_in.get(e["dst"], 0) + 1
    for n in spec["nodes"]:
        if "out_sel" in n and n["out_sel"] is None:
            n["out_sel"] = policy(g, p, n_out.get(n["id"], 1))
        if "in_sel" in n and n["in_sel"] is None:
            n["in_sel"] = policy(g, p, n_in.get(n["id"], 1))


def factories(profile=None):
    return st.lists(st.integers(0, 65535), min_size=GENOME, max_size=GENOME).map(lambda ints: decode(ints, profile))


# ------------------------------------------------------------------------------------------------
def shrink_candidates(spec):
    """Spec-aware delta debugging."""
    nodes, edges = spec["nodes"], spec["edges"]

    def clean(s):
        ids = set(n["id"] for n in s["nodes"]) | set(e["id"] for e in s["edges"])
        s["order"] = [i for i in s.get("order", []) if i in ids]
        s["connect"] = [i for i in s.get("connect", []) if i in ids]
        return s

    # drop an edge (keep graph valid: every non-source has an in-edge, every non-sink an out-edge)
    def valid(s):
        n_in, n_out = {}, {}
        for e in s["edges"]:
            n_out[e["src"]] = n_out.get(e["src"], 0) + 1
            n_in[e["dst"]] = n_in.get(e["dst"], 0) + 1
        for n in s["nodes"]:
            if n["type"] != "Source" and n_in.get(n["id"], 0) < 1:
                return False
            if n["type"] != "Sink" and n_out.get(n["id"], 0) < 1:
                return False
            if n["type"] == "Combiner" and len(n.get("recipe", [])) != n_in.get(n["id"], 0):
                return False
        return True

    for i, e in enumerate(edges):
        s = dict(spec, edges=edges[:i] + edges[i + 1:])
        # combiner recipe must shrink with its in-edges
        dst = next(n for n in nodes if n["id"] == e["dst"])
        if dst["type"] == "Combiner":
            idx = [x["id"] for x in edges if x["dst"] == dst["id"]]
            conn = [c for c in spec.get("connect", idx) if c in idx]
            pos = conn.index(e["id"])
            if pos == 0:
                continue
            r = list(dst["recipe"])
            del r[pos]
            s["nodes"] = [dict(n, recipe=r) if n["id"] == dst["id"] else n for n in nodes]
        s = clean(s)
        # indices in policies may now be out of range: reset them to FIRST_AVAILABLE
        s["nodes"] = [_reset_pol(n) if n["id"] in (e["src"], e["dst"]) else n for n in s["nodes"]]
        if valid(s):
            yield s
    # drop a node with all its edges
    for i, n in enumerate(nodes):
        s = dict(spec, nodes=nodes[:i] + nodes[i + 1:], edges=[e for e in edges if e["src"] != n["id"] and e["dst"] != n["id"]])
        s = clean(s)
        touched = set(e["src"] for e in edges if e["dst"] == n["id"]) | set(e["dst"] for e in edges if e["src"] == n["id"])
        s["nodes"] = [_reset_pol(m) if m["id"] in touched else m for m in s["nodes"]]
        if valid(s):
            yield s
    # shorter run
    if spec.get("T", 10) > 5:
        yield dict(spec, T=round(spec["T"] / 2, 1))
    # canonical construction order
    canon = [n["id"] for n in nodes] + [e["id"] for e in edges]
    if spec.get("order") != canon:
        yield dict(spec, order=canon)
    if spec.get("connect") != [e["id"] for e in edges]:
        yield dict(spec, connect=[e["id"] for e in edges])
    # simplify node parameters
    for i, n in enumerate(nodes):
        for key, simple in (("work_capacity", 1), ("setup", 0), ("blocking", True)):
            if key in n and n[key] != simple:
                yield dict(spec, nodes=nodes[:i] + [dict(n, **{key: simple})] + nodes[i + 1:])
        for key in ("in_sel", "out_sel"):
            if key in n and n[key] != "FIRST_AVAILABLE":
                yield dict(spec, nodes=nodes[:i] + [dict(n, **{key: "FIRST_AVAILABLE"})] + nodes[i + 1:])
        for key in ("delay", "iat"):
            if key in n:
                d = n[key]
                if d.get("kind") != "const" or len(d.get("values", [])) > 1:
                    nd = dict(d, kind="const", values=d["values"][:1])
                    yield dict(spec, nodes=nodes[:i] + [dict(n, **{key: nd})] + nodes[i + 1:])
                elif d["values"][0] not in (1, 0):
                    nd = dict(d, values=[1])
                    yield dict(spec, nodes=nodes[:i] + [dict(n, **{key: nd})] + nodes[i + 1:])
                if "finite_after" in d and d["finite_after"] > 1:
                    nd = dict(d, finite_after=max(1, d["finite_after"] // 2))
                    yield dict(spec, nodes=nodes[:i] + [dict(n, **{key: nd})] + nodes[i + 1:])
    for i, e in enumerate(edges):
        if e["kind"] != "Buffer":
            ne = {"id": e["id"], "kind": "Buffer", "src": e["src"], "dst": e["dst"], "capacity": e.get("capacity", 2),
                  "mode": "FIFO", "delay": {"kind": "const", "values": [0]}}
            yield dict(spec, edges=edges[:i] + [ne] + edges[i + 1:])
        else:
            if e.get("mode") == "LIFO":
                yield dict(spec, edges=edges[:i] + [dict(e, mode="FIFO")] + edges[i + 1:])
            d = e.get("delay", {})
            if d.get("kind") != "const" or d.get("values") != [0]:
                yield dict(spec, edges=edges[:i] + [dict(e, delay={"kind": "const", "values": [0]})] + edges[i + 1:])
        if e.get("capacity", 1) > 1:
            yield dict(spec, edges=edges[:i] + [dict(e, capacity=e["capacity"] - 1)] + edges[i + 1:])


def _reset_pol(n):
    n = dict(n)
    for key in ("in_sel", "out_sel"):
        if key in n and not isinstance(n[key], str):
            n[key] = "FIRST_AVAILABLE"
    return n
